from typing import List, Tuple, Optional, Dict
import io, contextlib
from hszinc.grid import Grid
from hszinc.grid_filter import filter_function
with contextlib.redirect_stdout(io.StringIO()):
    FN = filter_function('x and y == 3 and x >= 2')
    FN2 = filter_function('x < 5')

def _f3(x: Optional[int], y: Optional[int]) -> bool:
    """
    post: _
    """
    r = {'id': 'r'}
    if x is not None: r['x'] = x
    if y is not None: r['y'] = y
    g = Grid()
    got = bool(FN(g, r))
    exp = ('x' in r) and ('y' in r and r['y'] == 3) and ('x' in r and r['x'] >= 2)
    return got == exp

def _f1(x: Optional[int]) -> bool:
    """
    post: _
    """
    r = {'id': 'r'}
    if x is not None: r['x'] = x
    g = Grid()
    got = bool(FN2(g, r))
    exp = ('x' in r and r['x'] < 5)
    return got == exp
