"""Prototype: symbolic *recognizer* for pyparsing element graphs (real objects)
over bounded Text with z3 chars.  rec(elem, p) -> [(guard, end)] mutually
exclusive guards; no outcome true == ParseException at p.
"""
import pyparsing as pp
import z3
from symre import (Text, SreMatcher, b_and, b_or, b_not, ch_eq, is_conc)

WHITE = None


def upper_preimage(ch):
    """all code points whose str.upper() == ch (single char)"""
    res = []
    for cp in range(0x110000):
        try:
            if chr(cp).upper() == ch:
                res.append(cp)
        except Exception:
            pass
    return res


_UP = {}


class Recognizer:
    def __init__(self, text, max_depth=64):
        self.T = text
        self.memo = {}
        self.sre = {}
        self.stats = {'calls': 0}
        self.inprogress = set()

    def group(self, outs):
        """merge outcomes with same end; keep exclusivity"""
        by = {}
        for g, e in outs:
            if g is False:
                continue
            by.setdefault(e, []).append(g)
        return [(b_or(*gs), e) for e, gs in sorted(by.items())]

    def skipws(self, elem, p):
        if not elem.skipWhitespace:
            return [(True, p)]
        wc = [ord(c) for c in elem.whiteChars]
        outs = []
        prefix = True
        q = p
        while True:
            c = self.T.at(q)
            isw = b_or(*[ch_eq(c, w) for w in wc])
            outs.append((b_and(prefix, b_not(isw)), q))
            prefix = b_and(prefix, isw)
            if prefix is False or q >= self.T.L:
                break
            q += 1
        return [(g, e) for g, e in outs if g is not False]

    def rec(self, elem, p, pre=True):
        key = (id(elem), p, pre)
        if key in self.memo:
            return self.memo[key]
        if key in self.inprogress:
            raise RecursionError('left recursion at %r' % elem)
        self.inprogress.add(key)
        self.stats['calls'] += 1
        outs = []
        starts = self.skipws(elem, p) if (pre and elem.callPreparse) else [(True, p)]
        for gs, ps in starts:
            for g, e in self.impl(elem, ps):
                gg = b_and(gs, g)
                if gg is not False:
                    outs.append((gg, e))
        outs = self.group(outs)
        self.inprogress.discard(key)
        self.memo[key] = outs
        return outs

    def lit(self, s, p):
        g = b_and(*[ch_eq(self.T.at(p + i), ord(ch)) for i, ch in enumerate(s)])
        return [(g, p + len(s))] if g is not False else []

    def impl(self, elem, p):
        T = self.T
        if isinstance(elem, pp.Regex) or (isinstance(elem, pp.Word) and getattr(elem, 're', None) is not None):
            k = id(elem)
            if k not in self.sre:
                self.sre[k] = SreMatcher(elem.re, T)
            return [(g, e) for g, e, _ in self.sre[k].match_at(p)]
        if isinstance(elem, pp.CaselessLiteral):
            m = elem.match
            gs = []
            for i, ch in enumerate(m):
                if ch not in _UP:
                    _UP[ch] = upper_preimage(ch)
                gs.append(b_or(*[ch_eq(T.at(p + i), cp) for cp in _UP[ch]]))
            g = b_and(*gs)
            return [(g, p + len(m))] if g is not False else []
        if isinstance(elem, pp.Literal):  # includes _SingleCharLiteral
            return self.lit(elem.match, p)
        if isinstance(elem, pp.Empty):
            return [(True, p)]
        if isinstance(elem, pp.And):
            cur = [(True, p)]
            for i, e in enumerate(elem.exprs):
                nxt = []
                for g0, p0 in cur:
                    for g1, p1 in self.rec(e, p0, pre=(i > 0)):
                        g = b_and(g0, g1)
                        if g is not False:
                            nxt.append((g, p1))
                cur = self.group(nxt)
                if not cur:
                    break
            return cur
        if isinstance(elem, pp.Or):
            alts = [self.rec(e, p) for e in elem.exprs]
            outs = []
            for i, alt in enumerate(alts):
                for g, e in alt:
                    # chosen iff no alt has a longer end, and no earlier alt has same end
                    blockers = []
                    for j, alt2 in enumerate(alts):
                        for g2, e2 in alt2:
                            if e2 > e or (e2 == e and j < i):
                                blockers.append(g2)
                    gg = b_and(g, b_not(b_or(*blockers)))
                    if gg is not False:
                        outs.append((gg, e))
            return outs
        if isinstance(elem, pp.MatchFirst):
            outs = []
            prior = []
            for e in elem.exprs:
                alt = self.rec(e, p)
                anyg = b_or(*[g for g, _ in alt])
                for g, en in alt:
                    gg = b_and(g, *[b_not(x) for x in prior])
                    if gg is not False:
                        outs.append((gg, en))
                if anyg is True:
                    break
                prior.append(anyg)
            return outs
        if isinstance(elem, pp.Opt):
            alt = self.rec(elem.expr, p, pre=False)
            anyg = b_or(*[g for g, _ in alt])
            return list(alt) + [(b_not(anyg), p)]
        if isinstance(elem, (pp.ZeroOrMore, pp.OneOrMore)):
            assert elem.not_ender is None
            first = self.rec(elem.expr, p, pre=False)
            outs = []
            if isinstance(elem, pp.ZeroOrMore):
                outs.append((b_not(b_or(*[g for g, _ in first])), p))
            cur = first
            guard_iter = 0
            while cur:
                nxt = []
                for g0, p0 in cur:
                    step = self.rec(elem.expr, p0)
                    anyg = b_or(*[g for g, _ in step])
                    outs.append((b_and(g0, b_not(anyg)), p0))
                    for g1, p1 in step:
                        if p1 == p0:
                            raise RuntimeError('non-terminating repetition in %r' % elem)
                        g = b_and(g0, g1)
                        if g is not False:
                            nxt.append((g, p1))
                cur = self.group(nxt)
                guard_iter += 1
            return outs
        if isinstance(elem, pp.Forward):
            return self.rec(elem.expr, p, pre=False)
        if isinstance(elem, (pp.ParseElementEnhance,)):
            # Combine, Suppress, Group, DelimitedList, TokenConverter...
            return self.rec(elem.expr, p, pre=False)
        raise NotImplementedError(type(elem))

    def full(self, elem):
        """guard that elem.parseString(text, parseAll=True) succeeds"""
        outs = self.rec(elem, 0)
        gs = []
        for g, e in outs:
            # parseAll: StringEnd after optional whitespace skipping (default white chars)
            se = pp.StringEnd()
            for g2, e2 in self.skipws(se, e):
                gs.append(b_and(g, g2, self.T.is_end(e2)))
        return b_or(*gs)
