from typing import List, Tuple, Optional, Dict
import io, contextlib
from hszinc.grid import Grid
from hszinc.datatypes import Quantity

def _mk(rows):
    g = Grid()
    g.column['id'] = {}; g.column['x'] = {}; g.column['y'] = {}
    for r in rows: g.append(r)
    return g

def _f3(xs: List[Optional[int]], ys: List[Optional[int]]) -> bool:
    """
    pre: len(xs) == 2 and len(ys) == 2
    post: _
    """
    rows = []
    for i in range(2):
        r = {'id': 'r%d' % i}
        if xs[i] is not None: r['x'] = xs[i]
        if ys[i] is not None: r['y'] = ys[i]
        rows.append(r)
    g = _mk(rows)
    with contextlib.redirect_stdout(io.StringIO()):
        res = g.filter('x and y == 3 and x >= 2')
    exp = [r for r in rows if ('x' in r) and ('y' in r and r['y'] == 3) and ('x' in r and r['x'] >= 2)]
    return [r['id'] for r in res] == [r['id'] for r in exp]

def _q(v: int, x: int, u: str) -> bool:
    """
    post: _
    """
    q = Quantity(v, u)
    try:
        a = divmod(q, x)
    except Exception as e:
        a = type(e)
    try:
        b = divmod(v, x)
    except Exception as e:
        b = type(e)
    return a == b
