import hszinc
from hszinc.zincparser import parse_scalar, ZincParseException
from hszinc.version import VER_3_0
from hszinc import jsonparser

def _zs(s: str) -> bool:
    """
    pre: len(s) <= 2
    post: True
    raises: ZincParseException
    """
    parse_scalar(s, VER_3_0)
    return True

def _js(s: str) -> bool:
    """
    pre: len(s) <= 4
    post: _
    """
    v = jsonparser.parse_embedded_scalar('u:' + s)
    return isinstance(v, hszinc.Uri) and str(v) == s
