import sys, random, glob, ast, io, contextlib, warnings, time
warnings.simplefilter('ignore')
sys.path.insert(0,'/tmp/probe/p')
import pyparsing as pp
from symre import Text
from symval import Interp, ParseFail
import hszinc
from hszinc import zincparser as zp, grid_filter as gf
from hszinc.version import VER_3_0, VER_2_0
corpus=[]
for f in glob.glob('/repo/tests/test_*.py'):
    for n in ast.walk(ast.parse(open(f).read())):
        if isinstance(n, ast.Constant) and isinstance(n.value, str) and 0 < len(n.value) < 300:
            corpus.append(n.value)
corpus=list(dict.fromkeys(corpus))
rnd=random.Random(3)
def mutate(s):
    s=list(s)
    for _ in range(rnd.randint(0,2)):
        if not s: break
        i=rnd.randrange(len(s)); op=rnd.random(); ch=rnd.choice('",\n \\[]{}<>:@`NTM_-+.e0zZ')
        if op<0.3: del s[i]
        elif op<0.6: s.insert(i,ch)
        else: s[i]=ch
    return ''.join(s)
def norm(v):
    if isinstance(v, hszinc.Grid):
        return ('GRID', str(v.version), repr(v.metadata), repr(v.column), [ {k:norm(x) for k,x in r.items()} for r in v])
    if isinstance(v, list): return [norm(x) for x in v]
    if isinstance(v, dict): return {k:norm(x) for k,x in v.items()}
    if isinstance(v, hszinc.XStr): return ('XSTR', v.encoding, bytes(v.data) if not isinstance(v.data,str) else v.data)
    if isinstance(v, float) and v!=v: return 'NaN'
    return (type(v).__name__, repr(v))
def real(elem,s):
    try:
        with contextlib.redirect_stdout(io.StringIO()):
            return ('ok', norm(elem.parseString(s, parseAll=True)[0]))
    except pp.ParseException: return ('pfail',)
    except RecursionError: return None
    except Exception as e: return ('exc', type(e).__name__)
def mine(elem,s):
    T=Text([ord(c) for c in s])
    I=Interp(T, lambda cs: ''.join(chr(c) for c in cs), lambda g: bool(g))
    try:
        with contextlib.redirect_stdout(io.StringIO()):
            return ('ok', norm(I.parse_all(elem)[0]))
    except ParseFail: return ('pfail',)
    except Exception as e: return ('exc', type(e).__name__)
for name, elem in [('scalar3', zp.hs_scalar[VER_3_0]), ('scalar2', zp.hs_scalar[VER_2_0]), ('grid3', zp.hs_grid[VER_3_0]), ('grid2', zp.hs_grid[VER_2_0])]:
    n=bad=ok=0; t0=time.time()
    for s0 in corpus:
        for k in range(3):
            s = s0 if k==0 else mutate(s0)
            if len(s)>150: continue
            r=real(elem,s)
            if r is None: continue
            m=mine(elem,s)
            n+=1; ok+= r[0]=='ok'
            if r!=m:
                bad+=1
                if bad<=6: print('MISMATCH',name,repr(s)[:80],'\n   real',str(r)[:200],'\n   mine',str(m)[:200])
    print(name,'checked',n,'parsed ok',ok,'bad',bad,'%.1fs'%(time.time()-t0))
