import re, random, sys
sys.path.insert(0,'/tmp/probe/p')
from symre import *
from hszinc import jsonparser as jp, zincparser as zp, parser as hp, version as hv, zincdumper as zd
pats = [jp.NUMBER_RE, jp.REF_RE, jp.DATE_RE, jp.TIME_RE, jp.DATETIME_RE, jp.URI_RE, jp.BIN_RE, jp.COORD_RE,
        zp.VERSION_RE, zp.NEWLINE_RE, hp.TRAILING_NL_RE, hp.GRID_SEP, hv.VERSION_RE, zd.URI_META, zd.STR_META,
        re.compile(r"([^\x00-\x1f\\\"]|\\[bfnrt\\\"$]|\\[uU][0-9a-fA-F]{4})"), re.compile(r' *, *'), re.compile(r'[0-9_]+'),
        re.compile(r'[ *]'), re.compile(r'\[ *'), re.compile(r'\d'), re.compile(r'(a|ab)(c|bcd)(d*)'), re.compile(r'(a*)*b'), re.compile(r'(a|b)*?c'), re.compile(r'x*$', re.M)]
alpha = 'n:r-1.5e+ tT09:Z\n\\"u`b,c d:$_[]*ab\x00\x1fé€\U0001f600xh'
rnd = random.Random(1)
n=0; bad=0
for pat in pats:
    for _ in range(600):
        s = ''.join(rnd.choice(alpha) for _ in range(rnd.randint(0,9)))
        if rnd.random()<0.5:
            # bias: start with a plausible prefix
            s = rnd.choice(['n:','r:','d:2020-01-0','h:12:3','t:2020-01-01T10:00:00','u:','b:','c:1.5,','ver:"','\n\n','1.0','\\u00e9']) + s
        T = Text([ord(ch) for ch in s])
        for p in range(0, min(len(s)+1, 3)):
            m = pat.match(s, p)
            out = SreMatcher(pat, T).match_at(p)
            out = [(g,e,gr) for g,e,gr in out if g is True]
            n+=1
            if m is None:
                ok = (out == [])
            else:
                ok = len(out)==1 and out[0][1]==m.end()
                if ok:
                    gd = {gid:(a,b) for gid,a,b in out[0][2]}
                    for gi in range(1, (pat.groups or 0)+1):
                        exp = m.span(gi)
                        got = gd.get(gi, (-1,-1))
                        if exp != got:
                            ok=False
            if not ok:
                bad+=1
                if bad<10: print('MISMATCH', pat.pattern, repr(s), p, m and (m.end(), m.groups()), out)
print('checked', n, 'bad', bad)
