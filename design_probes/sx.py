"""Spike: AST-instrumented native execution of real hszinc source with symbolic
string proxies, decision-log re-execution forking, z3 back end."""
import ast, sys, types, importlib.util, re, time
import z3
from symre import Text, SreMatcher, b_and, b_or, b_not, to_z3, is_conc


class Unsupported(Exception):
    pass


class PathAbort(BaseException):
    pass


EX = None  # current explorer


class Explorer:
    def __init__(self):
        self.solver = z3.Solver()
        self.paths = 0
        self.checks = 0
        self.solver_time = 0.0

    def check(self, *extra):
        t0 = time.time()
        r = self.solver.check(*extra)
        self.solver_time += time.time() - t0
        self.checks += 1
        return r

    def decide(self, cond):
        if cond is True or cond is False:
            return cond
        cond = z3.simplify(cond)
        if z3.is_true(cond):
            return True
        if z3.is_false(cond):
            return False
        if self.pos < len(self.prefix):
            d = self.prefix[self.pos]
        else:
            can_t = self.check(cond) == z3.sat
            can_f = self.check(z3.Not(cond)) == z3.sat
            if can_t and can_f:
                self.work.append(self.prefix[:self.pos] + self.trace[len(self.prefix[:self.pos]):] + [False]) if False else None
                self.work.append(list(self.trace) + [False])
                d = True
            elif can_t:
                d = True
            elif can_f:
                d = False
            else:
                raise PathAbort()
        self.trace.append(d)
        self.pos += 1
        self.solver.add(cond if d else z3.Not(cond))
        return d

    def explore(self, fn, base_constraints):
        global EX
        EX = self
        self.work = [[]]
        results = []
        while self.work:
            self.prefix = self.work.pop()
            self.trace = []
            self.pos = 0
            self.solver.push()
            self.solver.add(*base_constraints)
            try:
                r = fn()
                results.append((list(self.trace), r))
                self.paths += 1
                if r is not None and r[0] == 'cex':
                    self.solver.pop()
                    return results
            except PathAbort:
                pass
            self.solver.pop()
        return results


class SymBool:
    def __init__(self, t):
        self.t = t

    def __bool__(self):
        return EX.decide(self.t)


def mkbool(t):
    if t is True or t is False:
        return t
    return SymBool(t)


class SymStr:
    """string of concrete length; chars are ints or z3 Int terms"""

    def __init__(self, chars):
        self.c = list(chars)

    def __len__(self):
        return len(self.c)

    def __bool__(self):
        return len(self.c) > 0

    def __getitem__(self, i):
        if isinstance(i, slice):
            return SymStr(self.c[i])
        return SymStr([self.c[i]])

    def __iter__(self):
        return iter(SymStr([x]) for x in self.c)

    def __add__(self, o):
        return SymStr(self.c + tochars(o))

    def __radd__(self, o):
        return SymStr(tochars(o) + self.c)

    def eq_term(self, o):
        oc = tochars(o)
        if len(oc) != len(self.c):
            return False
        return b_and(*[(a == b) for a, b in zip(self.c, oc)])

    def __eq__(self, o):
        if not isinstance(o, (str, SymStr)):
            return False
        return mkbool(self.eq_term(o))

    def __ne__(self, o):
        if not isinstance(o, (str, SymStr)):
            return True
        return mkbool(b_not(self.eq_term(o)))

    def __hash__(self):
        raise Unsupported('hash of symbolic string')

    def __str__(self):
        raise Unsupported('str() realisation of symbolic string')

    def __repr__(self):
        return 'SymStr(%r)' % (self.c,)

    def replace(self, old, new):
        assert isinstance(old, str) and len(old) == 1 and isinstance(new, str)
        out = []
        for ch in self.c:
            if bool(mkbool(ch == ord(old)) if not is_conc(ch) else ch == ord(old)):
                out.extend(ord(x) for x in new)
            else:
                out.append(ch)
        return SymStr(out)


def tochars(o):
    if isinstance(o, SymStr):
        return list(o.c)
    if isinstance(o, str):
        return [ord(x) for x in o]
    raise Unsupported('tochars %r' % type(o))


class SymInt:
    def __init__(self, t):
        self.t = t

    def __ge__(self, o):
        return mkbool(self.t >= o)


class SymMatch:
    def __init__(self, s, a, b):
        self.s, self.a, self.b = s, a, b

    def group(self, i=0):
        assert i == 0
        return self.s[self.a:self.b]


# ---- shims -------------------------------------------------------------
def has_sym(x):
    return isinstance(x, (SymStr, SymInt, SymBool))


def sx_mod(l, r):
    args = r if isinstance(r, tuple) else (r,)
    if not (has_sym(l) or any(has_sym(a) for a in args)):
        return l % r
    assert isinstance(l, str)
    out = []
    ai = 0
    for m in re.finditer(r'%(0?)(\d*)([sxdfr%])|([^%]+)', l):
        if m.group(4) is not None:
            out.extend(ord(c) for c in m.group(4))
            continue
        zero, width, conv = m.group(1), m.group(2), m.group(3)
        if conv == '%':
            out.append(37)
            continue
        a = args[ai]
        ai += 1
        if conv == 's':
            if isinstance(a, SymStr):
                out.extend(a.c)
            else:
                out.extend(ord(c) for c in str(a))
        elif conv == 'x' and isinstance(a, SymInt):
            w = int(width or 0)
            # fork on number of hex digits (1..6)
            nd = None
            for k in range(1, 7):
                lo = 0 if k == 1 else 16 ** (k - 1)
                if bool(mkbool(z3.And(a.t >= lo, a.t < 16 ** k))):
                    nd = k
                    break
            digs = []
            for j in range(nd - 1, -1, -1):
                d = (a.t / (16 ** j)) % 16
                digs.append(z3.If(d < 10, 48 + d, 87 + d))
            pad = [48 if zero else 32] * max(0, w - nd)
            out.extend(pad + digs)
        else:
            raise Unsupported('format %%%s of %r' % (conv, type(a)))
    return SymStr(out)


def sx_in(a, b):
    if isinstance(a, SymStr) and isinstance(b, str):
        assert len(a) == 1
        return mkbool(b_or(*[(a.c[0] == ord(ch)) for ch in b]))
    if isinstance(b, SymStr) and isinstance(a, str) and len(a) == 1:
        return mkbool(b_or(*[(ch == ord(a)) for ch in b.c]))
    if isinstance(a, SymStr) and isinstance(b, (tuple, list)):
        return mkbool(b_or(*[to_z3(a.eq_term(x)) if not isinstance(a.eq_term(x), bool) else a.eq_term(x) for x in b]))
    if has_sym(a) or has_sym(b):
        raise Unsupported('in')
    return a in b


def sx_call(fn, *args, **kw):
    if not any(has_sym(a) for a in args) and not any(has_sym(v) for v in kw.values()):
        if not (getattr(fn, '__self__', None) is not None and has_sym(fn.__self__)):
            return fn(*args, **kw)
    if fn is isinstance:
        a, cls = args
        if isinstance(a, SymStr):
            clss = cls if isinstance(cls, tuple) else (cls,)
            return any(c is str or c is object for c in clss)
        return isinstance(a, cls)
    if fn is ord:
        (a,) = args
        assert len(a) == 1
        return SymInt(a.c[0]) if not is_conc(a.c[0]) else a.c[0]
    if fn is len:
        return len(args[0])
    if fn is int and len(args) == 1 and kw.get('base') == 16:
        a = args[0]
        val = 0
        for ch in a.c:
            d = z3.If(z3.And(ch >= 48, ch <= 57), ch - 48,
                      z3.If(z3.And(ch >= 97, ch <= 102), ch - 87,
                            z3.If(z3.And(ch >= 65, ch <= 70), ch - 55, -1)))
            EX.solver.add(d >= 0) if False else None
            # domain check: must be hex digit else ValueError
            if not bool(mkbool(d >= 0)):
                raise ValueError('invalid literal for int() with base 16')
            val = val * 16 + d
        return SymInt(val)
    if getattr(fn, '__name__', '') in ('chr', 'unichr') or fn is chr:
        (a,) = args
        return SymStr([a.t])
    self_ = getattr(fn, '__self__', None)
    if isinstance(self_, re.Pattern) and fn.__name__ == 'sub':
        repl, s = args
        out = []
        T = Text(s.c + [-1])
        M = SreMatcher(self_, T)
        p = 0
        while p < len(s):
            res = M.match_at(p)
            took = False
            for g, e, _ in res:
                assert e > p
                if bool(mkbool(to_z3(g))):
                    out.extend(tochars(repl(SymMatch(s, p, e))))
                    p = e
                    took = True
                    break
            if not took:
                out.append(s.c[p])
                p += 1
        return SymStr(out)
    if isinstance(self_, SymStr) or callable(fn):
        return fn(*args, **kw)
    raise Unsupported('call %r' % fn)


class Tx(ast.NodeTransformer):
    def visit_BinOp(self, node):
        self.generic_visit(node)
        if isinstance(node.op, ast.Mod):
            return ast.copy_location(ast.Call(ast.Name('_sx_mod_', ast.Load()), [node.left, node.right], []), node)
        return node

    def visit_Compare(self, node):
        self.generic_visit(node)
        if len(node.ops) == 1 and isinstance(node.ops[0], (ast.In, ast.NotIn)):
            call = ast.Call(ast.Name('_sx_in_', ast.Load()), [node.left, node.comparators[0]], [])
            if isinstance(node.ops[0], ast.NotIn):
                call = ast.UnaryOp(ast.Not(), call)
            return ast.copy_location(call, node)
        return node

    def visit_Call(self, node):
        self.generic_visit(node)
        return ast.copy_location(ast.Call(ast.Name('_sx_call_', ast.Load()), [node.func] + node.args, node.keywords), node)


def load_instrumented(modname, alias):
    spec = importlib.util.find_spec(modname)
    src = open(spec.origin).read()
    tree = Tx().visit(ast.parse(src))
    ast.fix_missing_locations(tree)
    mod = types.ModuleType(alias)
    mod.__file__ = spec.origin
    mod.__package__ = modname.rpartition('.')[0]
    mod.__dict__['_sx_mod_'] = sx_mod
    mod.__dict__['_sx_in_'] = sx_in
    mod.__dict__['_sx_call_'] = sx_call
    exec(compile(tree, spec.origin, 'exec'), mod.__dict__)
    return mod
