import sys, time, warnings, io, contextlib
warnings.simplefilter('ignore')
sys.path.insert(0,'/tmp/probe/p')
import z3, sx
from sx import *
from symval import Interp, ParseFail
import hszinc
from hszinc.version import VER_3_0
zd = load_instrumented('hszinc.zincdumper', 'zd_sx')
zp = load_instrumented('hszinc.zincparser', 'zp_sx')
dt = load_instrumented('hszinc.datatypes', 'dt_sx')

def run(N, mk, extract, label, assume=None):
    cs = [z3.Int('c%d'%i) for i in range(N)]
    base = [z3.And(c >= 0, c <= 0x10ffff) for c in cs]
    if assume: base += [assume(c) for c in cs]
    def body():
        s = SymStr(cs)
        v = mk(s)
        with contextlib.redirect_stdout(io.StringIO()):
            t = zd.dump_scalar(v, version=VER_3_0)
        T = Text(tochars(t) + [-1])
        I = Interp(T, lambda chars: SymStr([c for c in chars]), lambda g: bool(mkbool(to_z3(g))) )
        def model():
            m = sx.EX.solver.model()
            return ''.join(chr(m.eval(c, model_completion=True).as_long()) for c in cs)
        try:
            with contextlib.redirect_stdout(io.StringIO()):
                r = I.parse_all(zp.hs_scalar[VER_3_0])[0]
        except ParseFail:
            assert sx.EX.check() == z3.sat
            return ('cex', 'rejected', model())
        except (ValueError, TypeError) as e:
            assert sx.EX.check() == z3.sat
            return ('cex', 'exc %s' % type(e).__name__, model())
        got = extract(r)
        if got is None:
            assert sx.EX.check() == z3.sat
            return ('cex', 'kind %s' % type(r).__name__, model())
        ne = to_z3(b_not(s.eq_term(got)))
        if sx.EX.check(ne) == z3.sat:
            m = sx.EX.solver.model()
            return ('cex', 'value', ''.join(chr(m.eval(c, model_completion=True).as_long()) for c in cs))
        return ('ok',)
    ex = Explorer(); t0=time.time()
    res = ex.explore(body, base)
    print(label, 'N=%d'%N, res[-1][1], 'paths', ex.paths, 'checks', ex.checks, 'wall %.1fs'%(time.time()-t0))

noctl = lambda c: z3.Or(c >= 0x20, c==8, c==9, c==10, c==12, c==13)
run(1, lambda s: s, lambda r: r if isinstance(r,(str,SymStr)) else None, 'str cell')
run(1, lambda s: s, lambda r: r if isinstance(r,(str,SymStr)) else None, 'str cell noctl', noctl)
run(2, lambda s: s, lambda r: r if isinstance(r,(str,SymStr)) else None, 'str cell noctl', noctl)
run(1, lambda s: hszinc.Ref('abc', s), lambda r: r.value if isinstance(r, hszinc.Ref) and r.name=='abc' else None, 'ref display noctl', noctl)
