from typing import List, Tuple, Optional, Dict
from hszinc.grid import Grid
from hszinc.version import Version

def _apply(g, model, op: int, i: int, rid: int):
    row = {'id': rid, 'v': i}
    if op == 0:
        g.append(row); model.append(row)
    elif op == 1:
        try:
            del g[i]
            ok = True
        except IndexError:
            ok = False
        if ok:
            del model[i]
        else:
            try:
                del model[i]
                raise AssertionError('model deleted but grid raised')
            except IndexError:
                pass
    elif op == 2:
        g.insert(i, row); model.insert(i, row)
    elif op == 3:
        try:
            g[i] = row
            ok = True
        except IndexError:
            ok = False
        if ok:
            model[i] = row

def _hist(ops: List[Tuple[int, int, int]], key: int) -> bool:
    """
    pre: len(ops) <= 3
    pre: all(0 <= o[0] <= 3 and -2 <= o[1] <= 2 and 0 <= o[2] <= 2 for o in ops)
    pre: 0 <= key <= 2
    post: _
    """
    g = Grid()
    model: List[dict] = []
    for (op, i, rid) in ops:
        _apply(g, model, op, i, rid)
    if list(g) != model:
        return False
    exp = None
    for r in model:
        if str(r['id']) == str(key):
            exp = r
    got = g.get(str(key))
    return got is exp

def _ver(a: Tuple[int, int], b: Tuple[int, int, int]) -> bool:
    """
    pre: all(0 <= x <= 20 for x in a) and all(0 <= x <= 20 for x in b)
    post: _
    """
    va = Version.__new__(Version); va.version_nums = a; va.version_extra = None
    vb = Version.__new__(Version); vb.version_nums = b; vb.version_extra = None
    if va == vb:
        return hash(va) == hash(vb)
    return True
