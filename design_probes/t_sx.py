import sys, time, warnings, io, contextlib
warnings.simplefilter('ignore')
sys.path.insert(0,'/tmp/probe/p')
import z3
import sx
from sx import *
from sympp import Recognizer
import hszinc
from hszinc import zincparser as zp_real
zd = load_instrumented('hszinc.zincdumper', 'zd_sx')
zp = load_instrumented('hszinc.zincparser', 'zp_sx')

def harness(N, dump, elem, unesc, skip_ctl):
    cs = [z3.Int('c%d'%i) for i in range(N)]
    base = [z3.And(c >= 0, c <= 0x10ffff) for c in cs]
    if skip_ctl:
        base += [z3.Or(c >= 0x20, c==8, c==9, c==10, c==12, c==13) for c in cs]
    def body():
        s = SymStr(cs)
        t = dump(s)
        T = Text(t.c + [-1])
        acc = to_z3(Recognizer(T).full(elem))
        if sx.EX.check(z3.Not(acc)) == z3.sat:
            m = sx.EX.solver.model()
            return ('cex', 'rejected', ''.join(chr(m.eval(c, model_completion=True).as_long()) for c in cs))
        u = unesc(t[1:-1])
        ne = to_z3(b_not(s.eq_term(u)))
        if sx.EX.check(ne) == z3.sat:
            m = sx.EX.solver.model()
            return ('cex', 'value', ''.join(chr(m.eval(c, model_completion=True).as_long()) for c in cs))
        return ('ok',)
    ex = Explorer()
    t0 = time.time()
    res = ex.explore(body, base)
    return res[-1][1], ex.paths, ex.checks, time.time()-t0, ex.solver_time

for skip in (False, True):
  for N in (1,2,3):
    r = harness(N, zd.dump_str, zp_real.hs_str, lambda x: zp._unescape(x, uri=False), skip)
    print('str N=%d skip_ctl=%s ->'%(N,skip), r[0] if r[0][0]=='cex' else 'ok', 'paths',r[1],'checks',r[2],'wall %.1fs solver %.1fs'%(r[3],r[4]))
    if r[0][0]=='cex':
        s = r[0][2]
        try:
            with contextlib.redirect_stdout(io.StringIO()):
                back = hszinc.parse_scalar(hszinc.dump_scalar(s))
            print('   replay', repr(s), '->', repr(back), back==s)
        except Exception as e:
            print('   replay', repr(s), 'EXC', type(e).__name__)
        break
for N in (1,2):
    r = harness(N, lambda s: zd.dump_uri(s), zp_real.hs_uri, lambda x: zp._unescape(x, uri=True), True)
    print('uri N=%d ->'%N, r[0], 'paths',r[1],'checks',r[2],'wall %.1fs solver %.1fs'%(r[3],r[4]))
