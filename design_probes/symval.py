"""Spike: value pass of the symbolic pyparsing interpreter — follows one
derivation (decisions via `decide`) and calls the REAL parse actions."""
import pyparsing as pp
from symre import b_and, b_or, b_not, to_z3
from sympp import Recognizer


class ParseFail(Exception):
    def __init__(self, loc):
        self.loc = loc


class Interp:
    def __init__(self, text, mkstr, decide):
        self.T = text
        self.R = Recognizer(text)
        self.mkstr = mkstr      # chars list -> string-like
        self.decide = decide    # guard -> bool
        self.instring = mkstr(text.c[:])

    def pick(self, outs, loc):
        for g, e in outs:
            if self.decide(g):
                return e
        raise ParseFail(loc)

    def parse(self, elem, p, do_actions=True, pre=True):
        # preParse
        if pre and elem.callPreparse and elem.skipWhitespace:
            p = self.pick(self.R.skipws(elem, p), p)
        start = p
        end, toks = self.impl(elem, p, do_actions)
        toks = self.post(elem, toks)
        ret = pp.ParseResults(toks, elem.resultsName, asList=elem.saveAsList, modal=elem.modalResults)
        if elem.parseAction and (do_actions or elem.callDuringTry):
            for fn in elem.parseAction:
                try:
                    r = fn(self.instring, start, ret)
                except IndexError:
                    raise ParseFail(start)
                if r is not None and r is not ret:
                    ret = pp.ParseResults(r, elem.resultsName,
                                          asList=elem.saveAsList and isinstance(r, (pp.ParseResults, list)),
                                          modal=elem.modalResults)
        return end, ret

    def post(self, elem, toks):
        if isinstance(elem, pp.Combine):
            parts = []
            def flat(t):
                for x in t:
                    if isinstance(x, (pp.ParseResults, list)):
                        flat(x)
                    else:
                        parts.append(x)
            flat(toks)
            s = self.mkstr([])
            for x in parts:
                s = s + x
            return [s]
        if isinstance(elem, pp.Suppress):
            return []
        if isinstance(elem, pp.Group):
            return [toks]
        return toks

    def impl(self, elem, p, do_actions):
        R = self.R
        if isinstance(elem, (pp.Regex, pp.Literal, pp.CaselessLiteral, pp.Word)):
            e = self.pick(R.impl(elem, p), p)
            if isinstance(elem, pp.CaselessLiteral):
                return e, [elem.returnString]
            return e, [self.mkstr(self.T.c[p:e])]
        if isinstance(elem, pp.Empty):
            return p, []
        if isinstance(elem, pp.And):
            out = []
            for i, e in enumerate(elem.exprs):
                p, t = self.parse(e, p, do_actions, pre=(i > 0))
                out += list(self.items(t))
            return p, out
        if isinstance(elem, pp.Or):
            alts = [R.rec(e, p) for e in elem.exprs]
            cands = []
            for i, alt in enumerate(alts):
                for g, e in alt:
                    cands.append((e, i, g))
            # longest first, earlier alternative first on ties (stable sort in pyparsing)
            matched = [(e, i) for (e, i, g) in sorted(cands, key=lambda c: (-c[0], c[1])) if self.decide(g)]
            # NB: guards of different ends of the same alt are exclusive; decide() over all
            if not matched:
                raise ParseFail(p)
            last = None
            for e, i in matched:
                try:
                    return self.parse(elem.exprs[i], p, do_actions)
                except ParseFail as pf:
                    last = pf
            raise last
        if isinstance(elem, pp.MatchFirst):
            for e in elem.exprs:
                outs = R.rec(e, p)
                if self.decide(b_or(*[g for g, _ in outs])):
                    return self.parse(e, p, do_actions)
            raise ParseFail(p)
        if isinstance(elem, pp.Opt):
            outs = R.rec(elem.expr, p, pre=False)
            if self.decide(b_or(*[g for g, _ in outs])):
                e, t = self.parse(elem.expr, p, do_actions, pre=False)
                return e, list(self.items(t))
            return p, []
        if isinstance(elem, (pp.ZeroOrMore, pp.OneOrMore)):
            out = []
            first = True
            while True:
                outs = R.rec(elem.expr, p, pre=not first)
                if not self.decide(b_or(*[g for g, _ in outs])):
                    if first and isinstance(elem, pp.OneOrMore):
                        raise ParseFail(p)
                    break
                p, t = self.parse(elem.expr, p, do_actions, pre=not first)
                out += list(self.items(t))
                first = False
            return p, out
        if isinstance(elem, (pp.Forward, pp.ParseElementEnhance)):
            e, t = self.parse(elem.expr, p, do_actions, pre=False)
            return e, list(self.items(t))
        raise NotImplementedError(type(elem))

    @staticmethod
    def items(t):
        # top-level items of a ParseResults, keeping nested groups as they are
        return t._toklist if isinstance(t, pp.ParseResults) else t

    def parse_all(self, elem):
        e, t = self.parse(elem, 0)
        se = pp.StringEnd()
        e2 = self.pick(self.R.skipws(se, e), e)
        if not self.decide(self.T.is_end(e2)):
            raise ParseFail(e2)
        return t
