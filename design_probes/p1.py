from typing import List, Tuple, Optional
from hszinc.sortabledict import SortableDict

def _reloc(keys: List[int], k: int, pos: int, after: bool) -> bool:
    """
    pre: 1 <= len(keys) <= 4
    pre: len(set(keys)) == len(keys)
    pre: k in keys and pos in keys and k != pos
    post: _
    """
    d = SortableDict([(x, x) for x in keys])
    d.add_item(k, 99, pos_key=pos, after=after)
    order = list(d.keys())
    i = order.index(pos)
    j = order.index(k)
    return (j == i + 1) if after else (j == i - 1)
