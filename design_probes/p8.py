from hszinc.datatypes import Uri, Bin, Ref, XStr, Coordinate

def _ne(s: str, t: str) -> bool:
    """
    pre: len(s) <= 2 and len(t) <= 2
    post: _
    """
    a = Uri(s); b = Bin(t)
    return (a == b) != (a != b)
