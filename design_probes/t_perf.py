import sys, time, warnings
warnings.simplefilter('ignore')
sys.path.insert(0,'/tmp/probe/p')
import z3
from symre import *
from sympp import *
from hszinc import zincparser as zp
from hszinc.version import VER_3_0, VER_2_0
sys.setrecursionlimit(10000)
for L in (6, 10, 14):
    cs = [z3.Int('c%d'%i) for i in range(L)]
    T = Text(cs)
    t0=time.time()
    R = Recognizer(T)
    acc = R.full(zp.hs_scalar[VER_3_0])
    t1=time.time()
    s = z3.Solver()
    for i,c in enumerate(cs):
        s.add(c >= -1, c <= 0x10ffff)
        if i+1 < L: s.add(z3.Implies(c == -1, cs[i+1] == -1))
    s.add(to_z3(acc))
    n = z3.Int('n')
    s.add(cs[L-1] != -1)   # full length
    s.add(cs[0] == ord('['))
    r = s.check(); t2=time.time()
    m = s.model()
    txt = ''.join(chr(m.eval(c).as_long()) for c in cs if m.eval(c).as_long()>=0)
    print('L',L,'build %.1fs'%(t1-t0),'calls',R.stats['calls'],'solve %.1fs'%(t2-t1), r, repr(txt), 'formula size', len(to_z3(acc).sexpr()))
    try:
        print('  real:', zp.hs_scalar[VER_3_0].parseString(txt, parseAll=True))
    except Exception as e: print('  real EXC', type(e).__name__, e)
