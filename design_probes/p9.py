from typing import List, Tuple, Optional
from hszinc.sortabledict import SortableDict

def _model_add(order, vals, key, value, index):
    if key in vals:
        if index is None:
            vals[key] = value
            return
        order.remove(key)
    if index is None:
        order.append(key)
    else:
        order.insert(index, key)
    vals[key] = value

def _seq(ops: List[Tuple[int, int, Optional[int]]]) -> bool:
    """
    pre: len(ops) <= 3
    pre: all(0 <= k <= 2 and (i is None or 0 <= i <= 3) for (k, v, i) in ops)
    post: _
    """
    d = SortableDict()
    order: List[int] = []
    vals = {}
    for (k, v, i) in ops:
        if i is not None and k in vals:
            continue   # relocation excluded in this probe (known defect)
        d.add_item(k, v, index=i)
        _model_add(order, vals, k, v, i)
    return list(d.keys()) == order and all(d[k] == vals[k] for k in order) and len(d) == len(order)
