from typing import List, Tuple, Optional
from hszinc.sortabledict import SortableDict

def _step(keys: List[int], k: int, v: int, i: Optional[int]) -> bool:
    """
    pre: len(keys) <= 3 and len(set(keys)) == len(keys)
    pre: all(0 <= x <= 3 for x in keys) and 0 <= k <= 3
    pre: i is None or 0 <= i <= 4
    pre: not (i is not None and k in keys)
    post: _
    """
    d = SortableDict()
    d._order = list(keys)
    d._values = {x: x * 10 for x in keys}
    order = list(keys); vals = {x: x * 10 for x in keys}
    d.add_item(k, v, index=i)
    if k in vals and i is None:
        vals[k] = v
    else:
        if i is None: order.append(k)
        else: order.insert(i, k)
        vals[k] = v
    return list(d.keys()) == order and all(d[x] == vals[x] for x in order) and len(d) == len(order)
