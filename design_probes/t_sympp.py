import sys, random, glob, re, time, warnings
warnings.simplefilter('ignore')
sys.path.insert(0,'/tmp/probe/p')
import pyparsing as pp
from symre import *
from sympp import *
from hszinc import zincparser as zp, grid_filter as gf
from hszinc.version import VER_3_0, VER_2_0
import io, contextlib

corpus = []
# harvest string literals from tests
import ast
for f in glob.glob('/repo/tests/test_*.py'):
    tree = ast.parse(open(f).read())
    for n in ast.walk(tree):
        if isinstance(n, ast.Constant) and isinstance(n.value, str) and 0 < len(n.value) < 400:
            corpus.append(n.value)
corpus = list(dict.fromkeys(corpus))
print('corpus', len(corpus))
rnd = random.Random(7)
def mutate(s):
    s = list(s)
    for _ in range(rnd.randint(0,2)):
        if not s: break
        i = rnd.randrange(len(s))
        op = rnd.random()
        if op<0.3: del s[i]
        elif op<0.6: s.insert(i, rnd.choice('",\n \\[]{}<>:@`NTM_-+.e0zZ'))
        else: s[i] = rnd.choice('",\n \\[]{}<>:@`NTM_-+.e0zZ')
    return ''.join(s)

def real(elem, s):
    try:
        with contextlib.redirect_stdout(io.StringIO()):
            elem.parseString(s, parseAll=True)
        return True
    except pp.ParseException:
        return False
    except RecursionError:
        return None
    except Exception as e:
        return True

targets = [('scalar3', zp.hs_scalar[VER_3_0]), ('scalar2', zp.hs_scalar[VER_2_0]), ('grid3', zp.hs_grid[VER_3_0]), ('grid2', zp.hs_grid[VER_2_0]), ('filter', gf.hs_filter)]
for name, elem in targets:
    n=bad=acc=0; t0=time.time()
    for s0 in corpus:
        for k in range(3):
            s = s0 if k==0 else mutate(s0)
            if len(s) > 120: continue
            r = real(elem, s)
            if r is None: continue
            T = Text([ord(c) for c in s])
            try:
                m = Recognizer(T).full(elem)
            except Exception as e:
                m = 'EXC %r' % e
            n+=1; acc += (r is True)
            if m is not r:
                bad+=1
                if bad<=5: print('MISMATCH', name, repr(s), 'real', r, 'mine', m)
    print(name, 'checked', n, 'accepted', acc, 'bad', bad, '%.1fs' % (time.time()-t0))
