import hszinc, datetime, pytz, warnings, traceback
from hszinc import *
warnings.simplefilter('ignore')
def t(label, f):
    try:
        print(label, '=>', repr(f()))
    except BaseException as e:
        print(label, '!!', type(e).__name__, str(e)[:100].replace('\n','|'))
Z=MODE_ZINC; J=MODE_JSON
t('empty zinc single', lambda: parse('', Z))
t('empty zinc multi', lambda: parse('', Z, single=False))
t('empty json list', lambda: parse('[]', J))
t('inf zinc', lambda: dump_scalar(float('inf'), Z))
t('inf zinc rt', lambda: parse_scalar(dump_scalar(float('inf'), Z), Z))
t('inf json', lambda: parse_scalar(dump_scalar(float('inf'), J), J))
t('ctl zinc', lambda: parse_scalar(dump_scalar('a\x01b', Z), Z))
t('del zinc', lambda: parse_scalar(dump_scalar('a\x7fb', Z), Z))
t('astral zinc', lambda: parse_scalar(dump_scalar('a\U0001F600b', Z), Z))
t('ffff zinc', lambda: parse_scalar(dump_scalar('￿', Z), Z))
t('uri nl json', lambda: parse_scalar(dump_scalar(Uri('a\nb'), J), J))
t('uri empty json', lambda: parse_scalar(dump_scalar(Uri(''), J), J))
t('uri zinc #', lambda: parse_scalar(dump_scalar(Uri('a\\#b'), Z), Z))
t('uri zinc bs', lambda: parse_scalar(dump_scalar(Uri('a\\b'), Z), Z))
t('xstr zinc quote', lambda: parse_scalar(dump_scalar(XStr('foo','a"b'), Z), Z).data)
t('xstr json colon', lambda: parse_scalar(dump_scalar(XStr('foo','a:b'), J), J).data)
t('star 3.0', lambda: parse_scalar('*', Z))
t('space 3.0', lambda: parse_scalar(' ', Z))
g=Grid(version='2.0'); g.column['a']={}
t('xstr in 2.0 grid', lambda: (g.append({'a':XStr('hex','00')}), dump(g,Z))[1])
t('parse that', lambda: parse(dump(g,Z),Z))
g=Grid(version='2.5'); g.column['a']={}
t('list in 2.5 grid', lambda: (g.append({'a':[1]}), g.version)[1])
t('dump that zinc', lambda: dump(g,Z))
t('dump that json', lambda: dump(g,J))
t('parse 2.5 zinc list', lambda: parse('ver:"2.5"\na\n[1]\n',Z)[0])
t('parse 2.5 json list', lambda: parse('{"meta":{"ver":"2.5"},"cols":[{"name":"a"}],"rows":[{"a":["n:1"]}]}',J)[0])
t('hash ver', lambda: (Version('2.0')==Version('2.0.0'), hash(Version('2.0'))==hash(Version('2.0.0'))))
t('uri ne', lambda: (Uri('x')=='x', Uri('x')!='x', 'x'==Uri('x'), 'x'!=Uri('x'), Uri('x')==Bin('x'), Uri('x')!=Bin('x')))
t('hash uri', lambda: hash(Uri('x')))
g1=Grid(); g1.column['a']={}; g1.append({'a':1.0}); g2=Grid(); g2.column['a']={}; g2.append({'a':'x'})
t('grid eq kinds', lambda: g1==g2)
t('grid eq rev', lambda: g2==g1)
g=Grid(); g.column['id']={}; g.column['x']={}
g.extend([{'id':'a','x':1},{'id':'b','x':2},{'id':'c','x':3},{'x':4}])
t('filter 3 and', lambda: [r.get('id') for r in g.filter('x>=1 and x>=2 and x>=3')])
t('filter absent lt', lambda: [r.get('id') for r in g.filter('y<3')])
t('filter str lt', lambda: [r.get('id') for r in g.filter('id<3')])
t('filter date', lambda: [r.get('id') for r in g.filter('x==2020-01-01')])
t('filter xstr inj', lambda: [r.get('id') for r in g.filter('x==len("abc")')])
t('filter INF', lambda: [r.get('id') for r in g.filter('x<INF')])
h=g[0:2]
t('slice del', lambda: h.__delitem__(0))
g=Grid(); g.column['id']={}
g.extend([{'id':1},{'id':2}])
del g[0]
t('stale int id', lambda: g.get(1))
g=Grid(); g.column['id']={}
t('first row no id then setitem', lambda: (g.append({'x':1}), g.__setitem__(0, {'id':'a'}))[1])
dt = datetime.datetime(2020,3,8,2,30, tzinfo=datetime.timezone(datetime.timedelta(hours=-5)))
t('fixed off tzname', lambda: dump_scalar(dt, Z))
dt = datetime.datetime(2020,11,1,1,30, tzinfo=datetime.timezone(datetime.timedelta(hours=-5)))
t('fixed off tzname ambiguous', lambda: dump_scalar(dt, Z))
ams = pytz.timezone('Europe/Amsterdam')
t('LMT', lambda: dump_scalar(ams.localize(datetime.datetime(1850,1,1)), Z))
t('LMT rt', lambda: parse_scalar(dump_scalar(ams.localize(datetime.datetime(1850,1,1)), Z), Z))
