"""Run harness functions (same PEP316 style as the CrossHair harnesses, int/bool arguments)
under the symx explorer, one subprocess per harness, replaying counterexamples."""
import json
import os
import subprocess
import sys
import time
from concurrent.futures import ThreadPoolExecutor

from . import common, xhair


def run_harnesses(chk, prelude, harnesses, module_name=None):
    module_name = module_name or ('s_%s' % chk.prop.lower())
    scratch = common.scratch_dir()
    try:
        return _run(chk, prelude, harnesses, module_name, scratch)
    finally:
        common.rm_rf(scratch)


def _run(chk, prelude, harnesses, module_name, scratch):
    path = os.path.join(scratch, module_name + '.py')
    src = '\n\n'.join([xhair.HEADER, prelude] + [h.src for h in harnesses])
    with open(path, 'w') as f:
        f.write(src)
    env = dict(os.environ)
    env['HSZINC_REPO'] = common.REPO
    env['PYTHONPATH'] = common.VERIF
    pyexe = sys.executable

    def work(h):
        t0 = time.time()
        cmd = [pyexe, '-m', 'vf.symx.contract', path, h.name, str(h.timeout)]
        try:
            p = subprocess.run(cmd, capture_output=True, text=True, env=env, timeout=h.timeout * 2 + 120, cwd=common.VERIF)
            out = p.stdout
            err = p.stderr
        except subprocess.TimeoutExpired:
            out, err = '', 'outer timeout'
        res = None
        for ln in out.split('\n'):
            if ln.startswith('SYMX-RESULT '):
                res = json.loads(ln[len('SYMX-RESULT '):])
        return h, res, err, time.time() - t0

    with ThreadPoolExecutor(max_workers=common.NCPU) as ex:
        results = list(ex.map(work, harnesses))
    for h, res, err, wall in results:
        chk.functions.add('harness:' + h.name)
        if res is None or res.get('status') == 'fault':
            chk.query(h.name, 'inconclusive', wall, detail=(res or {}).get('error', err)[-400:])
            chk.fault('symx run failed for %s: %s' % (h.name, ((res or {}).get('error') or err)[-400:]))
            continue
        chk.n_paths += res['paths']
        chk.n_solver_queries += res['checks']
        chk.solver_s += res['solver_s']
        chk.n_nontrivial += res['nontrivial']
        for smp in res.get('samples', [])[:1]:
            if len(chk.samples) < 12:
                chk.samples.append({'harness': h.name, 'path_model': smp})
        common_kw = dict(paths=res['paths'], aborted=res['aborted'], solver_checks=res['checks'], solver_s=res['solver_s'])
        if 'cex' in res:
            call = res['cex']['call']
            body = xhair.replay_body(src, module_name, call, h.name)
            verdict = chk.candidate(h.name, body, '%s: %s' % (h.what, call), kf_key=h.kf_key, model=call)
            chk.query(h.name, 'counterexample:' + verdict, wall, model=call[:300], message=res['cex']['message'][:200], **common_kw)
            chk.samples.append({'harness': h.name, 'counterexample': call[:300], 'replay': verdict})
            if verdict == 'spurious':
                chk.fault('non-reproducing model from symx for %s: %s' % (h.name, call))
        elif res['errors']:
            chk.query(h.name, 'inconclusive', wall, detail='; '.join(res['errors'])[:300], **common_kw)
            if h.core:
                chk.fault('unsupported operation in %s: %s' % (h.name, res['errors'][0][:200]))
        elif res['status'] == 'exhausted':
            if res['reached'] == 0:
                chk.query(h.name, 'inconclusive', wall, detail='vacuous: no path satisfied the precondition', **common_kw)
                chk.fault('vacuous harness %s' % h.name)
            else:
                chk.query(h.name, 'exhausted:holds', wall, reached=res['reached'], **common_kw)
        else:
            chk.query(h.name, 'budget:no-counterexample', wall, reached=res['reached'], **common_kw)
            chk.inconclusive.append(h.name)
    return results
