"""C13 - a filter's result is independent of other filters, earlier or concurrent.
Schedules: real threads through the real compile-and-evaluate code, stopped at every source line of the compile step;
the interleaving is a sequence of symbolic integers explored exhaustively (preemption-bounded) by the symx explorer.
Histories: symbolic sequences over a small cache, plus a concrete long history around the real cache capacity."""
import json
import os
import subprocess
import sys
import time
from concurrent.futures import ThreadPoolExecutor

from .. import common


def run(chk):
    quick = chk.tier == 'quick'
    jobs = [dict(name='threads2-preempt2', threads=2, max_preempt=2, timeout=300),
            dict(name='threads2-preempt2-evicting-cache', threads=2, max_preempt=2, small_cache=2, warm=2, timeout=300),
            dict(name='history-seq5-cap2', seq=5, filters=3, capacity=2, timeout=300),
            dict(name='history-values-seq4-cap2', seq=4, filters=4, capacity=2, family=2, timeout=300),
            dict(name='long-history-1500', history=True, n=1500)]
    if not quick:
        jobs += [dict(name='threads2-preempt3', threads=2, max_preempt=3, timeout=1500),
                 dict(name='threads3-preempt2', threads=3, max_preempt=2, timeout=1500),
                 dict(name='threads3-preempt2-evicting-cache', threads=3, max_preempt=2, small_cache=2, warm=2, timeout=1500),
                 dict(name='history-seq6-cap2', seq=6, filters=4, capacity=2, timeout=2400),
                 dict(name='history-seq6-cap3', seq=6, filters=4, capacity=3, timeout=2400),
                 dict(name='history-values-seq5-cap3', seq=5, filters=4, capacity=3, family=2, timeout=2400),
                 dict(name='threads2-preempt2-eval', threads=2, max_preempt=2, trace_eval=1, timeout=2400)]
    jobs.append(dict(name='threads2-preempt1-eval', threads=2, max_preempt=1, trace_eval=1, timeout=300))
    if chk.only:
        jobs = [j for j in jobs if chk.only in j['name']]
    chk.bounds = dict(threads='2 (quick) / 2-3 (thorough)', preemptions='<= 2 (quick) / <= 3 (thorough)',
                      granularity='every source line of filter_function, _filter_function, _FnWrapper.__init__/get/__del__; in the -eval scenarios also of _get_path and _compare',
                      histories='all sequences of 5 (quick) / 6 (thorough) evaluations over 3-4 distinct filters with a cache of 2-3 entries, each step through Grid.filter or a previously obtained function; one concrete history of 1500 distinct filters with a hot filter re-used every 7 steps and functions held across 1500 later compilations (real capacity 500)')
    chk.assumptions = ['a context switch between two lines of the traced functions is the scheduling granularity (switches inside one line, inside pyparsing or inside CPython are not modelled)',
                       'functools.lru_cache itself is thread safe (CPython); in the evicting-cache scenarios it is re-created with capacity 2 (same code, smaller capacity)',
                       'each thread compiles a different, previously unseen filter', 'free-threaded builds are out of scope']
    chk.trusted = ['vf/sched.py deterministic scheduler (sys.settrace + semaphores)', 'symx explorer', 'z3']
    chk.note_source('hszinc/grid_filter.py')
    chk.functions.update(['hszinc.grid_filter.filter_function', '_filter_function', '_FnWrapper.__init__', '_FnWrapper.get', '_FnWrapper.__del__', 'Grid.filter'])
    env = dict(os.environ)
    env['HSZINC_REPO'] = common.REPO
    env['PYTHONPATH'] = common.VERIF
    pyexe = sys.executable

    def work(j):
        t0 = time.time()
        try:
            p = subprocess.run([pyexe, '-m', 'vf.c13worker', json.dumps(j)], capture_output=True, text=True, env=env, timeout=j.get('timeout', 300) * 2 + 300, cwd=common.VERIF)
            out, err = p.stdout, p.stderr
        except subprocess.TimeoutExpired:
            out, err = '', 'outer timeout'
        res = None
        for ln in out.split('\n'):
            if ln.startswith('C13-RESULT '):
                res = json.loads(ln[len('C13-RESULT '):])
        return j, res, err, time.time() - t0

    with ThreadPoolExecutor(max_workers=common.NCPU) as ex:
        results = list(ex.map(work, jobs))
    for j, res, err, wall in results:
        name = j['name']
        if res is None or res.get('status') == 'fault':
            chk.query(name, 'inconclusive', wall, detail=((res or {}).get('error') or err)[-400:])
            chk.fault('worker failed for %s: %s' % (name, ((res or {}).get('error') or err)[-400:]))
            continue
        chk.n_paths += res.get('schedules', 0)
        chk.n_nontrivial += res.get('schedules', 0)
        chk.n_solver_queries += res.get('checks', 0)
        chk.solver_s += res.get('solver_s', 0.0)
        chk.validated += res.get('schedules', 0)
        for smp in res.get('samples', [])[:1]:
            chk.samples.append({'scenario': name, 'schedule_or_history': smp})
        if j.get('history'):
            if res.get('problem'):
                body = ('sys.path.insert(0, %r)\nfrom vf import sched\nmsg = sched.long_history(hszinc, %d)\n'
                        'if msg is not None:\n    VIOLATED(msg)\nHOLDS()\n') % (common.VERIF, j.get('n', 1500))
                v = chk.candidate(name, body, 'long history: ' + res['problem'], model=name)
                chk.query(name, 'counterexample:' + v, wall, message=res['problem'][:200])
            else:
                chk.query(name, 'holds(concrete history)', wall)
            continue
        if 'cex' in res:
            c = res['cex']
            if j.get('seq'):
                body = ('sys.path.insert(0, %r)\nfrom vf import sched\nmsg = sched.sequence_run(hszinc, %r, %d, %d)\n'
                        'if msg is not None:\n    VIOLATED(msg)\nHOLDS()\n') % (common.VERIF, [tuple(x) for x in c['schedule']], j.get('capacity', 2), j.get('family', 1))
            else:
                body = ('sys.path.insert(0, %r)\nfrom vf import sched\nmsg = sched.replay_schedule(hszinc, %d, %d, %r, %d, %d)\n'
                        'if msg is not None:\n    VIOLATED(msg)\nHOLDS()\n') % (common.VERIF, j.get('threads', 2), j.get('warm', 0), c['schedule'], j.get('small_cache', 0), j.get('trace_eval', 0))
            v = chk.candidate(name, body, '%s: %s (schedule %r)' % (name, c['what'], c['schedule']), model=c['schedule'])
            chk.query(name, 'counterexample:' + v, wall, message=c['what'][:200], schedules=res['schedules'])
            chk.samples.append({'scenario': name, 'counterexample': c['schedule'], 'what': c['what'], 'replay': v})
            if v == 'spurious':
                chk.fault('non-reproducing schedule for %s' % name)
        elif res.get('errors'):
            chk.query(name, 'inconclusive', wall, detail=str(res['errors'])[:300])
            chk.fault('explorer error in %s: %s' % (name, res['errors'][0][:200]))
        elif res['status'] == 'exhausted':
            chk.query(name, 'exhausted:holds', wall, schedules=res['schedules'], solver_checks=res['checks'])
        else:
            chk.query(name, 'budget:no-counterexample', wall, schedules=res['schedules'])
            chk.inconclusive.append(name)
    return chk.finish(rule='schedules/histories are sequences of symbolic integers; the symx explorer enumerates every feasible value sequence (z3 decides feasibility) and each one is '
                           'EXECUTED on the real code by the deterministic scheduler (traces_validated_against_impl counts them); non-trivial = executed schedules/histories',
                      exhaustive=not chk.inconclusive)
