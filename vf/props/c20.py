"""C20 - a Quantity is numerically transparent (E1, CrossHair).
One generated harness per operator found on the live Qty class x operand form."""
import os
import subprocess
import sys

from .. import common, xhair, symrun

# harnesses CrossHair explores without ever confirming (int/int -> float division, pow realise its
# symbolic ints): the same harness functions are decided by the symx explorer instead (exhaustive over the stated ranges)
SYMX_HARNESSES = ('bin_truediv_qn', 'bin_truediv_nq', 'bin_truediv_qq', 'bin_pow_qq', 'pow3')

PRELUDE = r'''
import operator, math
from hszinc.datatypes import Quantity, Qty

def outcome(f):
    try:
        return ('value', f())
    except Exception as e:          # CrossHair's own control flow is BaseException
        return ('raises', type(e))

def same_val(a, b):
    if type(a) is not type(b):
        return False
    if isinstance(a, tuple):
        return len(a) == len(b) and all(same_val(x, y) for x, y in zip(a, b))
    if isinstance(a, float) and a != a:
        return b != b
    if isinstance(a, complex):
        return same_val(a.real, b.real) and same_val(a.imag, b.imag)
    return a == b

def same(f, g):
    (k1, r1), (k2, r2) = outcome(f), outcome(g)
    if k1 != k2:
        return False
    if k1 == 'raises':
        return r1 is r2
    return same_val(r1, r2)

def num(t, i, b):
    """operand of the selected type: 0 int (symbolic z3 Int), 1 bool (symbolic)"""
    if t == 0:
        return i
    return b

def conc(x, lo, hi):
    """explicit concretisation of a small-range operand: one path per value, so the solver never sees
    symbolic-by-symbolic multiplication/division"""
    for d in range(lo, hi + 1):
        if x == d:
            return d
    return x

SPECIALS = [float('inf'), float('-inf'), float('nan'), -0.0, 0, 1, -7, True, 1e308, 5e-324, 2**70, 0.5, 3.0,
            2**53 + 1, -(2**53) - 1, 10**400, -(10**400), 3, 2**63, 1e16]

def CONV(a, t):
    # int()/float()/complex() on an object call its dunder; the dunder is called directly because CrossHair
    # intercepts the builtins for its own symbolic values (modelling artefact, seen as non-reproducing models)
    if isinstance(a, Qty):
        return getattr(a, '__%s__' % t.__name__)()
    return t(a)

def special(k):
    for i in range(len(SPECIALS)):      # explicit concretisation: one path per catalogue entry
        if k == i:
            return SPECIALS[i]
    return 0
'''

BINOPS = [
    ('add', 'a + b', 0), ('sub', 'a - b', 0), ('mul', 'a * b', 2), ('truediv', 'a / b', 1),
    ('floordiv', 'a // b', 2), ('mod', 'a % b', 2), ('divmod', 'divmod(a, b)', 2),
    ('pow', 'pow(a, b)', 1), ('lshift', 'a << b', 3), ('rshift', 'a >> b', 3),
    ('and', 'a & b', 1), ('xor', 'a ^ b', 1), ('or', 'a | b', 1),
]
CMPOPS = [('lt', 'a < b'), ('le', 'a <= b'), ('eq', 'a == b'), ('ne', 'a != b'), ('ge', 'a >= b'), ('gt', 'a > b')]
UNOPS = [('neg', '-a'), ('pos', '+a'), ('abs', 'abs(a)'), ('invert', '~a'), ('int', 'CONV(a, int)'),
         ('float', 'CONV(a, float)'), ('complex', 'CONV(a, complex)')]

SIG = 'tv: int, vi: int, vb: bool, tx: int, xi: int, xb: bool'
PRE_T = '0 <= tv <= 1 and 0 <= tx <= 1'
SMALL = ' and -5 <= xi <= 5 and -5 <= vi <= 5'
SMALLX = ' and -8 <= xi <= 8'


def gen():
    H = []

    def add(name, sig, pre, body, what, timeout=40, small=0):
        body = body.replace('@VI@', 'conc(vi, -5, 5)' if small == 1 else 'vi').replace('@XI@', 'conc(xi, -8, 8)' if small else 'xi')
        src = 'def %s(%s) -> bool:\n    """\n    pre: %s\n    post: _\n    """\n%s\n' % (
            name, sig, pre, '\n'.join('    ' + l for l in body.strip('\n').split('\n')))
        H.append(xhair.Harness(name, src, timeout=timeout, what=what))

    for opn, expr, small in BINOPS:
        pre = PRE_T + (SMALL if small == 1 else (SMALLX if small in (2, 3) else ''))
        lam = 'lambda a, b: ' + expr
        add('bin_%s_qn' % opn, SIG, pre,
            'v = num(tv, @VI@, vb); x = num(tx, @XI@, xb); op = %s\n'
            'return same(lambda: op(Quantity(v, "m"), x), lambda: op(v, x))' % lam,
            'Quantity(v,u) %s x == v %s x' % (opn, opn), small=small)
        add('bin_%s_nq' % opn, SIG, pre,
            'v = num(tv, @VI@, vb); x = num(tx, @XI@, xb); op = %s\n'
            'return same(lambda: op(v, Quantity(x, "m")), lambda: op(v, x))' % lam,
            'v %s Quantity(x,u) == v %s x' % (opn, opn), small=small)
        add('bin_%s_qq' % opn, SIG + ', sameunit: bool', pre,
            'v = num(tv, @VI@, vb); x = num(tx, @XI@, xb); op = %s\n'
            'return same(lambda: op(Quantity(v, "m"), Quantity(x, "m" if sameunit else "s")), lambda: op(v, x))' % lam,
            'Quantity(v,u) %s Quantity(x,u2) == v %s x' % (opn, opn), small=small)
        # special values (inf, nan, -0.0, huge, tiny, bool): both operands chosen from a concrete catalogue by symbolic index
        for form, fexpr in enumerate(['op(Quantity(v, "m"), x)', 'op(v, Quantity(x, "m"))', 'op(Quantity(v, "m"), Quantity(x, None))']):
            add('bin_%s_special%d' % (opn, form), 'i: int, j: int', '0 <= i < len(SPECIALS) and 0 <= j < len(SPECIALS)',
                'v = special(i); x = special(j); op = %s\n'
                'if %s and not (abs(v) <= 64 and abs(x) <= 8):\n    return True\n'
                'return same(lambda: %s, lambda: op(v, x))' % (lam, 'True' if opn in ('pow', 'lshift', 'rshift') else 'False', fexpr),
                '%s on inf/nan/-0.0/huge/tiny/bool operands and ints beyond 2**53 / beyond the float range, operand form %d' % (opn, form), timeout=90)
    # three-argument pow
    add('pow3', 'v: int, x: int, m: int, form: int', '-20 <= v <= 20 and -3 <= x <= 8 and -9 <= m <= 9 and 0 <= form <= 1',
        'if form == 0:\n    return same(lambda: pow(Quantity(v, "m"), x, m), lambda: pow(v, x, m))\n'
        'return same(lambda: pow(Quantity(v, "m"), Quantity(x, "s"), m), lambda: pow(v, x, m))',
        'pow(Quantity(v,u), x, m) == pow(v, x, m)')
    for opn, expr in UNOPS:
        add('un_%s' % opn, 'tv: int, vi: int, vb: bool, unit: Optional[str]', '0 <= tv <= 1 and (unit is None or len(unit) <= 1)' + (' and -8 <= vi <= 8' if opn in ('float', 'complex') else ''),
            'v = num(tv, %s, vb);' % ('conc(vi, -8, 8)' if opn in ('float', 'complex') else 'vi') + ' op = lambda a: %s\n'
            'return same(lambda: op(Quantity(v, unit)), lambda: op(v))' % expr,
            '%s Quantity(v,u) == %s v' % (opn, opn))
        add('un_%s_special' % opn, 'i: int', '0 <= i < len(SPECIALS)',
            'v = special(i); op = lambda a: %s\n'
            'return same(lambda: op(Quantity(v, "m")), lambda: op(v))' % expr,
            '%s on special values' % opn)
    for opn, expr in CMPOPS:
        lam = 'lambda a, b: ' + expr
        add('cmp_%s_qn' % opn, SIG, PRE_T,
            'v = num(tv, @VI@, vb); x = num(tx, @XI@, xb); op = %s\n'
            'return same(lambda: op(Quantity(v, "m"), x), lambda: op(v, x)) and same(lambda: op(x, Quantity(v, "m")), lambda: op(x, v))' % lam,
            'Quantity %s number compares the value (both operand orders)' % opn)
        add('cmp_%s_qq' % opn, SIG + ', u1: Optional[str], u2: Optional[str]',
            PRE_T + ' and (u1 is None or len(u1) <= 1) and (u2 is None or len(u2) <= 1)',
            'v = num(tv, @VI@, vb); x = num(tx, @XI@, xb); op = %s\n'
            'if u1 == u2:\n    return same(lambda: op(Quantity(v, u1), Quantity(x, u2)), lambda: op(v, x))\n'
            'return outcome(lambda: op(Quantity(v, u1), Quantity(x, u2))) == ("raises", TypeError)' % lam,
            'Quantity %s Quantity: values when units match, TypeError when they differ' % opn)
        add('cmp_%s_special' % opn, 'i: int, j: int', '0 <= i < len(SPECIALS) and 0 <= j < len(SPECIALS)',
            'v = special(i); x = special(j); op = %s\n'
            'return (same(lambda: op(Quantity(v, "m"), x), lambda: op(v, x)) and same(lambda: op(x, Quantity(v, "m")), lambda: op(x, v))\n'
            '        and same(lambda: op(Quantity(v, "m"), Quantity(x, "m")), lambda: op(v, x)))' % lam,
            '%s on special values' % opn, timeout=40)
    # one object on both sides: q == q, q <= q, q - q ... must give what v does with itself (nan != nan, inf - inf is nan)
    allops = [(n, e) for n, e, _ in BINOPS] + CMPOPS
    add('self_special', 'i: int, k: int, unit: bool', '0 <= i < len(SPECIALS) and 0 <= k < %d' % len(allops),
        'v = special(i); q = Quantity(v, "m" if unit else None)\n'
        + ''.join('if k == %d:\n    if %s and not abs(v) <= 8:\n        return True\n    op = lambda a, b: %s\n    return same(lambda: op(q, q), lambda: op(v, v))\n'
                  % (n, 'True' if name in ('pow', 'lshift', 'rshift') else 'False', expr) for n, (name, expr) in enumerate(allops))
        + 'return True',
        'the same Quantity object on both sides of every binary and comparison operator (identity is not equality: NaN)', timeout=120)
    add('self_int', 'vi: int, k: int', '0 <= k < %d' % len(CMPOPS),
        'q = Quantity(vi, "m")\n'
        + ''.join('if k == %d:\n    op = lambda a, b: %s\n    return same(lambda: op(q, q), lambda: op(vi, vi))\n' % (n, expr) for n, (name, expr) in enumerate(CMPOPS))
        + 'return True',
        'the same Quantity object on both sides of the comparison operators, symbolic int value')
    return H


def live_operators():
    """Operator methods actually defined on the live Qty class (evidence + completeness check)."""
    code = ("import sys,io,contextlib\nsys.path.insert(0,%r)\n"
            "with contextlib.redirect_stdout(io.StringIO()):\n  from hszinc.datatypes import Qty\n"
            "print(' '.join(sorted(k for k in vars(Qty) if k.startswith('__') and k not in ('__module__','__doc__','__dict__','__weakref__','__qualname__','__firstlineno__','__static_attributes__'))))") % common.REPO
    p = subprocess.run([sys.executable, '-c', code], capture_output=True, text=True)
    return p.stdout.split()


COVERED = set('add sub mul truediv floordiv mod divmod pow lshift rshift and xor or '
              'radd rsub rmul rtruediv rfloordiv rmod rdivmod rpow rlshift rrshift rand rxor ror '
              'neg pos abs invert int float complex lt le eq ne ge gt'.split())
NOT_IN_PROPERTY = set('init repr str hash oct hex div rdiv cmp long index'.split())     # __index__ is not among the operations the statement lists


def run(chk):
    chk.bounds = dict(ints='unbounded z3 Int (mul/div/mod/shift: right operand |x|<=8, concretised per value; pow/truediv/bitwise: |v|<=5, |x|<=5, both concretised; pow3: |v|<=20, -3<=x<=8, |m|<=9)',
                      floats='never symbolic: both operands from a 20-entry catalogue (inf,-inf,nan,-0.0,1e308,5e-324,2**70,2**53+1,10**400,...) chosen by symbolic indices',
                      units='"m"/"s"/None fixed for arithmetic; comparisons: symbolic units None or <=1 char')
    chk.assumptions = ['MODE_PINT is False (default Quantity = BasicQuantity)',
                       'float operands are never symbolic: they come from a concrete catalogue selected by a symbolic index (nothing about IEEE rounding is decided by the solver)',
                       'int()/float()/complex() conversions are checked by calling the dunder the builtin would call',
                       'counterexamples are replayed on plain CPython before being reported']
    chk.trusted = ['crosshair-tool 0.0.110', 'z3']
    chk.note_source('hszinc/datatypes.py')
    ops = live_operators()
    chk.extra['live_qty_methods'] = ops
    unknown = [o for o in ops if o.strip('_') not in COVERED and o.strip('_') not in NOT_IN_PROPERTY]
    chk.extra['methods_without_harness'] = unknown
    chk.functions.update('hszinc.datatypes.Qty.' + o for o in ops)
    hs = [x for x in gen() if not chk.only or chk.only in x.name]
    if chk.tier == 'thorough':
        for x in hs:
            x.timeout *= 6
    xhair.run_harnesses(chk, PRELUDE, [x for x in hs if x.name not in SYMX_HARNESSES])
    sx = [x for x in hs if x.name in SYMX_HARNESSES]
    if sx:
        symrun.run_harnesses(chk, PRELUDE, sx)
    return chk.finish(rule='one CrossHair condition per (operator, operand form); operand types int/float/bool selected by a symbolic '
                           'selector; result and exception class of op(Quantity(v,u), x) compared with op(v, x); non-trivial = '
                           'harness non-vacuous (reach twin refuted) and explored without counterexample',
                      exhaustive=not chk.inconclusive)
