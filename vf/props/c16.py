"""C16 - ordered metadata maps (SortableDict / MetadataObject): one operation from an
arbitrary valid state, in lock-step with a reference ordered-map model (symx explorer: native execution, z3-decided branches)."""
from .. import common, xhair, symrun

PRELUDE = r'''
from hszinc.sortabledict import SortableDict
from hszinc.metadata import MetadataObject
from hszinc.datatypes import MARKER

KEYS = ['ka', 'kb', 'kc', 'kd', 'ke']
NK = @NK@            # size of the key universe
MAXN = @MAXN@        # max keys in the pre-state

def conc(x, lo, hi):
    for d in range(lo, hi + 1):
        if x == d:
            return d
    return lo

def valid_state(n, k0, k1, k2, k3):
    ks = (k0, k1, k2, k3)
    if not (0 <= n <= MAXN):
        return False
    for i in range(4):
        if i < n:
            if not (0 <= ks[i] < NK):
                return False
        elif ks[i] != 0:
            return False           # unused slots pinned (no duplicate states)
    for i in range(n):
        for j in range(i + 1, n):
            if ks[i] == ks[j]:
                return False
    return True

def build(cls, n, ks, vs):
    """The map exactly as a history of stores would leave it: value dict + key-order list (I16:
    _order is duplicate-free and lists exactly the keys of _values)."""
    d = cls()
    order = []
    for i in range(4):
        if i < n:
            k = KEYS[conc(ks[i], 0, NK - 1)]
            order.append(k)
            d._values[k] = None if (i < 2 and vs[i] == -1) else vs[i]      # a stored null (Haystack's None) is a value like any other (first two slots)
    d._order = list(order)
    model = [(k, d._values[k]) for k in order]
    return d, model

def inv(d):
    return len(d._order) == len(set(d._order)) == len(d._values) and set(d._order) == set(d._values.keys())

def snapshot(d):
    return (list(d._order), dict(d._values))

# ---- reference ordered-map model (documented semantics) --------------------
def m_keys(m):
    return [k for k, _ in m]

def m_add(m, key, value, after=False, index=None, pos_key=None, replace=True):
    """returns new model or raises; `before/after key K` lands immediately before/after K; a replace keeps
    its position unless a position is given; an index is the position in the resulting order (clamped)."""
    if index is not None and pos_key is not None:
        raise ValueError('both')
    if pos_key is not None and pos_key not in m_keys(m):
        raise KeyError(pos_key)
    present = key in m_keys(m)
    if present and not replace:
        raise KeyError(key)
    if index is None and pos_key is None:
        if present:
            return [(k, (value if k == key else v)) for k, v in m]
        return m + [(key, value)]
    if pos_key is not None and pos_key == key:
        return [(k, (value if k == key else v)) for k, v in m]      # relative to itself: stays where it is
    rest = [(k, v) for k, v in m if k != key]
    if pos_key is not None:
        p = m_keys(rest).index(pos_key) + (1 if after else 0)
    else:
        p = index + (1 if after else 0)
    p = min(p, len(rest))
    return rest[:p] + [(key, value)] + rest[p:]

def outcome(f):
    try:
        return ('ok', f())
    except Exception as e:
        return ('raises', type(e).__name__)

def agree(d, m):
    return inv(d) and list(d.items()) == m and len(d) == len(m) and list(d.keys()) == m_keys(m) and all(d[k] == v for k, v in m)
'''

SIG = 'n: int, k0: int, k1: int, k2: int, k3: int, v0: int, v1: int, v2: int, v3: int'
PRE = 'valid_state(n, k0, k1, k2, k3)'
MK = 'd, m = build(%s, n, (k0, k1, k2, k3), (v0, v1, v2, v3)); before = snapshot(d)'

H = []


def add(name, extra_sig, extra_pre, body, what, timeout=60, cls='SortableDict', split_n=False):
    if split_n:
        for j in range(5):
            add('%s_n%d' % (name, j), extra_sig, (extra_pre + ' and ' if extra_pre else '') + 'n == %d' % j, body,
                what + ' [pre-state of %d keys]' % j, timeout, cls)
        return
    src = 'def %s(%s%s) -> bool:\n    """\n    pre: %s%s\n    post: _\n    """\n    %s\n%s\n' % (
        name, SIG, (', ' + extra_sig) if extra_sig else '', PRE, (' and ' + extra_pre) if extra_pre else '',
        MK % cls, '\n'.join('    ' + l for l in body.strip('\n').split('\n')))
    H.append(xhair.Harness(name, src, timeout=timeout, what=what))


CHECK_STEP = '''
r1 = outcome(lambda: %(impl)s)
r2 = outcome(lambda: %(model)s)
if r1[0] != r2[0]:
    return False
if r1[0] == 'raises':
    # same exception class, and a rejected operation changes nothing
    return r1[1] == r2[1] and snapshot(d) == before
return agree(d, r2[1])
'''

add('setitem', 'kk: int, vv: int', '0 <= kk < NK',
    'key = KEYS[conc(kk, 0, NK - 1)]\n' + CHECK_STEP % dict(impl='d.__setitem__(key, vv)', model='m_add(m, key, vv)'),
    'd[k] = v appends a new key / keeps the position of an existing one')
add('add_plain', 'kk: int, vv: int, replace: bool', '0 <= kk < NK',
    'key = KEYS[conc(kk, 0, NK - 1)]\n' + CHECK_STEP % dict(impl='d.add_item(key, vv, replace=replace)', model='m_add(m, key, vv, replace=replace)'),
    'add_item without position (replace True/False)')
add('add_index', 'kk: int, vv: int, ii: int, after: bool, replace: bool', '0 <= kk < NK and 0 <= ii <= MAXN + 1',
    'key = KEYS[conc(kk, 0, NK - 1)]\n' + CHECK_STEP % dict(impl='d.add_item(key, vv, after=after, index=ii, replace=replace)',
                                                     model='m_add(m, key, vv, after=after, index=ii, replace=replace)'),
    'add_item(index=i, after=...) incl. relocation of an existing key', timeout=90, split_n=True)
add('add_poskey', 'kk: int, vv: int, pk: int, after: bool, replace: bool', '0 <= kk < NK and 0 <= pk < NK',
    'key = KEYS[conc(kk, 0, NK - 1)]; pkey = KEYS[conc(pk, 0, NK - 1)]\n'
    + CHECK_STEP % dict(impl='d.add_item(key, vv, after=after, pos_key=pkey, replace=replace)',
                        model='m_add(m, key, vv, after=after, pos_key=pkey, replace=replace)'),
    'add_item(pos_key=K, after=...) lands immediately before/after K, incl. relocation', timeout=90, split_n=True)
add('add_both', 'kk: int, vv: int, ii: int, pk: int, after: bool', '0 <= kk < NK and 0 <= pk < NK and 0 <= ii <= 2',
    'key = KEYS[conc(kk, 0, NK - 1)]; pkey = KEYS[conc(pk, 0, NK - 1)]\n'
    + CHECK_STEP % dict(impl='d.add_item(key, vv, after=after, index=ii, pos_key=pkey)',
                        model='m_add(m, key, vv, after=after, index=ii, pos_key=pkey)'),
    'index and pos_key together are rejected with ValueError, nothing changes')
add('delitem', 'kk: int', '0 <= kk < NK',
    'key = KEYS[conc(kk, 0, NK - 1)]\n'
    'def mdel():\n    if key not in m_keys(m):\n        raise KeyError(key)\n    return [(k, v) for k, v in m if k != key]\n'
    + CHECK_STEP % dict(impl='d.__delitem__(key)', model='mdel()'),
    'del d[k]')
add('pop', 'kk: int', '0 <= kk < NK',
    'key = KEYS[conc(kk, 0, NK - 1)]\n'
    'r1 = outcome(lambda: d.pop(key))\n'
    'if key in m_keys(m):\n    return r1 == ("ok", dict(m)[key]) and agree(d, [(k, v) for k, v in m if k != key])\n'
    'return r1 == ("raises", "KeyError") and snapshot(d) == before and d.pop(key, 7) == 7',
    'pop(k) / pop(k, default)')
add('pop_at', 'ii: int', '-MAXN - 1 <= ii <= MAXN + 1',
    'r1 = outcome(lambda: d.pop_at(ii))\n'
    'if -len(m) <= ii < len(m):\n    return r1 == ("ok", m[ii][1]) and agree(d, [p for j, p in enumerate(m) if j != (ii % len(m))])\n'
    'return r1 == ("raises", "IndexError") and snapshot(d) == before',
    'pop_at(i)')
add('at_valueat_index', 'ii: int', '-MAXN - 1 <= ii <= MAXN + 1',
    'r1 = outcome(lambda: (d.at(ii), d.value_at(ii)))\n'
    'if -len(m) <= ii < len(m):\n    return r1 == ("ok", m[ii]) and d.index(m[ii][0]) == (ii % len(m)) and snapshot(d) == before\n'
    'return r1 == ("raises", "IndexError") and snapshot(d) == before',
    'at / value_at / index are consistent with the order')
add('reverse_sort', 'rev: bool, desc: bool, kf: int, kw: bool', '0 <= kf <= 4',
    'kf = conc(kf, 0, 4)\n'
    'f = [None, len, (lambda k: k[0]), (lambda k: KEYS.index(k) % 2), (lambda k: -KEYS.index(k))][kf]\n'
    'if rev:\n    d.reverse(); want = list(reversed(m))\n'
    'elif kf == 0 and not kw:\n    d.sort(reverse=desc); want = sorted(m, key=lambda p: p[0], reverse=desc)\n'
    'elif kf == 0 and not desc:\n    d.sort(); want = sorted(m, key=lambda p: p[0])\n'
    'else:\n    d.sort(key=f, reverse=desc); want = sorted(m, key=(None if f is None else (lambda p: f(p[0]))), reverse=desc)\n'
    'return agree(d, want)',
    'reverse() / sort(key=..., reverse=...) reorder keys only, like list.sort (stable: tied keys keep their order, also with reverse=True)')
add('mapping_views', '', '',
    'ok = agree(d, m) and list(iter(d)) == m_keys(m) and list(d.values()) == [v for _, v in m]\n'
    'ok = ok and all((k in d) == (k in m_keys(m)) for k in KEYS[:NK]) and d.get("zz", 5) == 5 and (d == dict(m))\n'
    'd.clear()\nreturn ok and agree(d, [])',
    'iteration / views / membership / clear')
add('update_setdefault', 'kk: int, vv: int, kq: int, w2: int', '0 <= kk < NK and 0 <= kq < NK',
    'key = KEYS[conc(kk, 0, NK - 1)]; key2 = KEYS[conc(kq, 0, NK - 1)]\n'
    'got = d.setdefault(key, vv)\nm1 = m if key in m_keys(m) else m + [(key, vv)]\n'
    'if got != dict(m1)[key] or not agree(d, m1):\n    return False\n'
    'd.update([(key2, w2), (key, vv)])\nm2 = m_add(m_add(m1, key2, w2), key, vv)\nreturn agree(d, m2)',
    'setdefault / update keep order semantics', timeout=120)
add('ctor_initial', 'asdict: bool', '',
    'd2 = SortableDict(dict(m) if asdict else list(m))\nreturn agree(d2, m) and snapshot(d) == before',
    'constructor from pairs / dict keeps the given order')
add('meta_append', 'kk: int, vv: int, usemarker: bool, replace: bool', '0 <= kk < NK',
    'key = KEYS[conc(kk, 0, NK - 1)]\n'
    'if usemarker:\n'
    + '\n'.join('    ' + l for l in (CHECK_STEP % dict(impl='d.append(key, replace=replace)', model='m_add(m, key, MARKER, replace=replace)')).strip('\n').split('\n')) + '\n'
    + CHECK_STEP % dict(impl='d.append(key, vv, replace=replace)', model='m_add(m, key, vv, replace=replace)'),
    'MetadataObject.append (marker by default)', cls='MetadataObject')
add('meta_extend', 'kk: int, vv: int, kq: int, w2: int, replace: bool, form: int', '0 <= kk < NK and 0 <= kq < NK and 0 <= form <= 2 and kk != kq',
    'key = KEYS[conc(kk, 0, NK - 1)]; key2 = KEYS[conc(kq, 0, NK - 1)]\n'
    'items = [(key, vv), (key2, w2)]\n'
    'arg = items if form == 0 else (dict(items) if form == 1 else SortableDict(items))\n'
    'def mext():\n    mm = m\n    for k, v in items:\n        mm = m_add(mm, k, v, replace=replace)\n    return mm\n'
    'r1 = outcome(lambda: d.extend(arg, replace=replace)); r2 = outcome(mext)\n'
    'if r1[0] != r2[0]:\n    return False\n'
    'if r1[0] == "raises":\n    return r1[1] == r2[1] and inv(d)\n'
    'return agree(d, r2[1])',
    'MetadataObject.extend with list / dict / SortableDict', cls='MetadataObject', timeout=90, split_n=True)


SEQ_PRELUDE = r'''
def apply_op(d, m, op, k, pk, after):
    """one public operation chosen by selector; arguments are concretised only where the operation uses them"""
    ck = lambda: KEYS[conc(k, 0, SEQK - 1)]
    if op == 0:
        key = ck(); pkey = KEYS[conc(pk, 0, SEQK - 1)]; aft = bool(after)
        impl = lambda: d.add_item(key, 5, after=aft, pos_key=pkey); model = lambda: m_add(m, key, 5, after=aft, pos_key=pkey)
    elif op == 1:
        key = ck()
        impl = lambda: d.__setitem__(key, 6); model = lambda: m_add(m, key, 6)
    elif op == 2:
        key = ck()
        def mdel():
            if key not in m_keys(m):
                raise KeyError(key)
            return [(a, b) for a, b in m if a != key]
        impl = lambda: d.__delitem__(key); model = mdel
    elif op == 3:
        impl = lambda: d.reverse(); model = lambda: list(reversed(m))
    elif op == 4:
        impl = lambda: d.sort(); model = lambda: sorted(m, key=lambda p: p[0])
    elif op == 5:
        key = ck()
        def mindex():
            if key not in m_keys(m):
                raise ValueError(key)
            return m
        def iindex():
            if d.index(key) != m_keys(m).index(key):
                raise AssertionError('index() disagrees with the order')
        impl = iindex; model = mindex
    elif op == 6:
        def mpop():
            if not m:
                raise IndexError()
            return m[1:]
        impl = lambda: d.pop_at(0); model = mpop
    else:
        key = ck(); idx = conc(pk, 0, SEQK - 1); aft = bool(after)
        impl = lambda: d.add_item(key, 7, after=aft, index=idx); model = lambda: m_add(m, key, 7, after=aft, index=idx)
    r1 = outcome(impl); r2 = outcome(model)
    if r1[0] != r2[0]:
        return None
    if r1[0] == 'raises':
        return m if r1[1] == r2[1] else None
    return r2[1]

def run_seq(n0, ops):
    d = MetadataObject()
    m = []
    for i in range(n0):
        d[KEYS[i]] = i
        m.append((KEYS[i], i))
    for (op, k, pk, after) in ops:
        m = apply_op(d, m, conc(op, 0, NOPS - 1), k, pk, after)
        if m is None or not agree(d, m):
            return False
    return True
'''


def seq_harnesses(depth, quick):
    out = []
    sig = ', '.join('o%d: int, k%d: int, p%d: int, a%d: bool' % (i, i, i, i) for i in range(depth))
    pre = ' and '.join('0 <= o%d < NOPS and 0 <= k%d < SEQK and 0 <= p%d < SEQK' % (i, i, i) for i in range(depth))
    ops = ', '.join('(o%d, k%d, p%d, a%d)' % (i, i, i, i) for i in range(depth))
    for n0 in (2, 3):
        for first in range(7 if quick else 8):
            subs = [('', '')] if first not in (0, 7) else [('_k%d' % c, ' and k0 == %d' % c) for c in range(3 if quick else 4)]
            for tag, extra in subs:
                name = 'seq%d_n%d_first%d%s' % (depth, n0, first, tag)
                src = ('def %s(%s) -> bool:\n    """\n    pre: %s and o0 == %d%s\n    post: _\n    """\n    return run_seq(%d, [%s])\n'
                       % (name, sig, pre, first, extra, n0, ops))
                out.append(xhair.Harness(name, src, timeout=120 if quick else 900,
                                         what='history of %d public operations from a map of %d keys (first op %d%s)' % (depth, n0, first, extra)))
    return out


def run(chk):
    quick = chk.tier == 'quick'
    nk, maxn = (4, 3) if quick else (5, 4)
    chk.bounds = dict(key_universe=nk, max_keys_in_pre_state=maxn, values='unbounded symbolic ints',
                      positions='index 0..max+1, pos_key over the whole key universe, after/replace both values',
                      history='one operation from an arbitrary valid state (inductive step, invariant I16 re-established after every operation) plus all histories of 3 public operations (add_item pos_key/index, store, delete, reverse, sort, index(), pop_at) over 3 (quick) / 4 keys from maps built through the public API')
    chk.assumptions = ['I16 (pre-state): _order is duplicate-free and lists exactly the keys of _values - checked to be re-established by every operation, so the one-step result extends to histories of any length (induction schema trusted)',
                       'keys are concrete strings chosen by symbolic selectors (real dict hashing needs concrete keys); values are symbolic ints',
                       'reference model m_add written from the add_item docstring; an explicit index is the position in the resulting order; key relative to itself keeps its place',
                       'multi-item extend/update are compared with the item-by-item model (no atomicity claim for multi-item calls)']
    chk.trusted = ['crosshair-tool 0.0.110', 'z3', 'reference ordered-map model in the harness prelude']
    for f in ('hszinc/sortabledict.py', 'hszinc/metadata.py'):
        chk.note_source(f)
    chk.functions.update(['SortableDict.__init__', 'SortableDict.add_item', 'SortableDict.__setitem__', 'SortableDict.__delitem__',
                          'SortableDict.at/value_at/index/pop_at/reverse/sort', 'MutableMapping mixins pop/update/setdefault/clear',
                          'MetadataObject.append', 'MetadataObject.extend'])
    allh = H + seq_harnesses(3, quick)
    hs = [x for x in allh if (not chk.only or chk.only in x.name) and not any(x.name.endswith('_n%d' % j) for j in range(maxn + 1, 5))]
    if not quick:
        for x in hs:
            x.timeout *= 8
    symrun.run_harnesses(chk, (PRELUDE + SEQ_PRELUDE + '\nSEQK = %d\nNOPS = %d\n' % ((3, 7) if quick else (4, 8))).replace('@NK@', str(nk)).replace('@MAXN@', str(maxn)), hs)
    return chk.finish(rule='one CrossHair condition per operation; the pre-state (which keys, in which order, with which values) and every '
                           'argument are symbolic; the real method and the reference model run side by side; non-trivial = non-vacuous '
                           'harness explored without counterexample', exhaustive=not chk.inconclusive)
