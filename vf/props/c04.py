"""C04 - the ZINC writer emits spec-conformant text that denotes the grid: the real writer's output is read by an
independent reference reader (vf/spec/zinc_ref.py, no code shared with hszinc) inside the same symbolic run."""
from .. import common, textprops
from . import roundtrip


def run(chk):
    kf_bin = chk.kf.active('bin-zinc-3.0')
    jobs = [dict(j, **{'assert': 'zincref'}) for j in roundtrip.matrix('zinc', chk.tier, kf_bin)]
    # three symbolic code points through writer + reference reader cost ~10x the round trip: keep N=3 for cells of 3.0 grids only
    # (finer first-character classes, larger budget); the other positions/versions stop at N=2
    jobs = [j for j in jobs if j['N'] < 3 or j.get('alphabet') or (j.get('position') == 'cell' and j['version'] == '3.0')]
    for j in jobs:
        if j['N'] >= 3 and not j.get('alphabet'):
            j['fine_split'] = True
            j['timeout'] = 3000
    if chk.only:
        jobs = [j for j in jobs if chk.only in textprops.job_name(j)]
    nmax = max([j['N'] for j in jobs if not j.get('alphabet')] or [0])
    from ..spec import zinc_ref
    chk.bounds = dict(symbolic_payload_code_points='<=%d per document (plus 6 over the metacharacter alphabet for str/uri)' % nmax, kinds_symbolic=roundtrip.TEXT_KINDS + roundtrip.ALPHA_KINDS,
                      positions_3_0=roundtrip.POS30, positions_2_0=roundtrip.POS20, versions=['2.0', '3.0'],
                      catalogue='concrete boundary values of the non-text kinds at every position, all mapped zones, 400+ microsecond values',
                      documents='single grid and two-grid documents')
    chk.assumptions = ['the reference reader is my recollection of the Project Haystack ZINC grammar (no network in the sandbox); uncertain points, each resolved permissively: ' + '; '.join(zinc_ref.UNCERTAIN),
                       'numbers/dates/times/coordinates are concrete catalogue values; the reference keeps them as text and the comparison converts with float()/datetime',
                       'one symbolic payload per document'] + (['known finding bin-zinc-3.0 excluded'] if kf_bin else [])
    chk.trusted = ['vf/spec/zinc_ref.py (independent reader)', 'vf/neutral.py (comparison)', 'symx engine', 'z3']
    for f in ('hszinc/zincdumper.py', 'hszinc/datatypes.py', 'hszinc/zoneinfo.py', 'hszinc/dumper.py'):
        chk.note_source(f)
    chk.note_source('../verif/vf/spec/zinc_ref.py')
    textprops.run_jobs(chk, jobs)
    return chk.finish(rule='as C01, but the text written by the real ZINC writer is parsed by the independent reference reader executing on the same symbolic text; '
                           'z3 query per path: "exists payload for which the reference rejects the text or recovers a different grid"', exhaustive=not chk.inconclusive)
