"""C03 - the ZINC reader accepts the whole surface syntax and decodes it correctly.
A corpus of well-formed documents written to cover every spelling the property lists; one symbolic character is
substituted / inserted at every position; on every path where the independent reference reader accepts the text,
hszinc must accept it too and denote the same grid (E2 symx)."""
from .. import common, mutworker
from . import c09


def run(chk):
    jobs = c09.make_jobs('C03', chk.tier, chk.only)
    if not chk.only or 'zforms' in chk.only:
        jobs.append(dict(prop='C03', zforms=True, docs=['zforms']))
    from ..spec import zinc_ref
    chk.bounds = dict(documents=sorted(mutworker.GRID_DOCS) + ['scalar:' + k for k in sorted(mutworker.SCALAR_DOCS)],
                      spellings='blanks around commas, empty cells, _ digit separators, exponents, INF/-INF/NaN, backslash and \\\\uXXXX escapes, CRLF, trailing commas/blanks in lists and dicts, t/T z/Z, with/without zone name, with/without final newline (insert/replace at the end), one or two grids, versions 2.0/3.0',
                      mutation='one symbolic code point replacing / inserted at every third (quick) or every (thorough) position; only paths on which the reference reader accepts the text are claimed',
                      fully_symbolic='every scalar text of 1..2 (quick) / 1..3 (thorough) code points, versions 2.0 and 3.0; thorough: two adjacent symbolic characters at every position of the scalar corpus',
                      inputs='symbolic runs: str input, single=False; concrete input forms: every corpus document (plus two with text outside ASCII) as bytes in 14 charsets, with and without byte-order mark, single=True and False, default arguments, bytes scalars, empty input')
    chk.assumptions = ['the reference reader is my recollection of the ZINC grammar; uncertain points are excluded from the claim (the reference rejects them as "uncertain"): ' + '; '.join(zinc_ref.UNCERTAIN),
                       'zone names are compared as written (zone database semantics: C17)',
                       'one mutated position per grid document (adjacent pairs on scalars in the thorough tier)', 'quick tier excludes non-ASCII decimal digits from the symbolic character']
    chk.trusted = ['symx engine', 'vf/spec/zinc_ref.py', 'vf/neutral.py', 'z3']
    for f in ('hszinc/zincparser.py', 'hszinc/parser.py', 'hszinc/version.py', 'hszinc/zoneinfo.py'):
        chk.note_source(f)
    c09.run_mut_jobs(chk, jobs)
    return chk.finish(rule='one exhaustive symbolic exploration per (document, position, replace|insert); z3 query per path: "reference accepts and (hszinc rejects or '
                           'the denotations differ)"', exhaustive=not chk.inconclusive)
