"""C18 - Version is a total order consistent with == and hash (E1, CrossHair)."""
from .. import common, xhair, symrun

PRELUDE = r'''
from hszinc.version import Version, OFFICIAL_VERSIONS
import hszinc.version as _vm

def mkv(nums, extra):
    """A Version exactly as the constructor would leave it (fields only)."""
    v = Version.__new__(Version)
    v.version_nums = tuple(nums)
    v.version_extra = extra
    return v

def okn(l, a, b, c, maxl=3):
    return 1 <= l <= maxl and a >= 0 and b >= 0 and c >= 0

def tup(l, a, b, c):
    if l == 1:
        return (a,)
    if l == 2:
        return (a, b)
    return (a, b, c)

import types as _types
_vm.warnings = _types.SimpleNamespace(warn=lambda *a, **k: None)   # logging stub: no global registry state

def okx(x):
    # what VERSION_RE's second group can hold: None or text starting with a non-digit
    return x is None or (1 <= len(x) <= MAXX and not x[0].isdigit() and x[0] != '.' and chr(10) not in x)

def sign(a, b):
    """-1/0/1 from the public operators only; None if they disagree."""
    lt, eq, gt = (a < b), (a == b), (a > b)
    if [lt, eq, gt].count(True) != 1:
        return None
    return -1 if lt else (0 if eq else 1)

def ref_cmp(n1, x1, n2, x2):
    """Reference order from the module docstring: numeric groups padded with
    zeros compared left to right, then missing suffix first, then text order."""
    k = max(len(n1), len(n2))
    a = list(n1) + [0] * (k - len(n1))
    b = list(n2) + [0] * (k - len(n2))
    if a != b:
        return -1 if a < b else 1
    if x1 is None or x2 is None:
        return 0 if x1 is x2 else (-1 if x1 is None else 1)
    return 0 if x1 == x2 else (-1 if x1 < x2 else 1)

OFFICIAL = sorted(OFFICIAL_VERSIONS)
MAXX = @MAXX@
CAT_MINL = @CATMINL@

# module-level containers of hszinc.version as they are after import: every nearest() harness starts from this state, so
# that a path cannot see what an earlier explored path left behind (and a replay in a fresh process sees the same thing)
import copy as _copy
_MODSTATE = [(o, _copy.copy(o)) for k, o in vars(_vm).items() if isinstance(o, (dict, list, set)) and not k.startswith('__')]

def reset_modstate():
    for o, c in _MODSTATE:
        o.clear()
        if isinstance(o, list):
            o.extend(c)
        else:
            o.update(c)

# suffixes that end in digits, share a stem, differ in case / blanks / punctuation: ordered as plain text by the docstring
SUFFIXES = [None, 'a', 'b', 'A', 'ab', 'rc1', 'rc01', 'rc9', 'rc10', 'rc1x', 'a1', 'a01', 'a9', 'a10', '-1', '-01', '-9', '-10',
            ' 1', '+', chr(233), 'a.9', 'a.10', 'a ', '_', 'a0', 'a00', 'rc', 'RC1', 'b2']

def small(x, n):
    for k in range(n):
        if x == k:
            return k
    return 0

def pick_suffix(i, lo=0, hi=None):
    for k in range(lo, len(SUFFIXES) if hi is None else hi):
        if i == k:
            return SUFFIXES[k]
    return None
'''

H = []


SYMX_HARNESSES = set()


def h(name, src, symx=False, **kw):
    H.append(xhair.Harness(name, src, **kw))
    if symx:
        SYMX_HARNESSES.add(name)


h('trichotomy_order', r'''
def trichotomy_order(l1: int, a1: int, b1: int, c1: int, x1: Optional[str], l2: int, a2: int, b2: int, c2: int, x2: Optional[str]) -> bool:
    """
    pre: okn(l1, a1, b1, c1) and okn(l2, a2, b2, c2) and okx(x1) and okx(x2)
    post: _
    """
    n1, n2 = tup(l1, a1, b1, c1), tup(l2, a2, b2, c2)
    a, b = mkv(n1, x1), mkv(n2, x2)
    s = sign(a, b)
    return s is not None and s == ref_cmp(n1, x1, n2, x2)
''', timeout=100, what='exactly one of <, ==, > holds and it is the documented order')

h('ops_agree', r'''
def ops_agree(l1: int, a1: int, b1: int, c1: int, x1: Optional[str], l2: int, a2: int, b2: int, c2: int, x2: Optional[str]) -> bool:
    """
    pre: okn(l1, a1, b1, c1) and okn(l2, a2, b2, c2) and okx(x1) and okx(x2)
    post: _
    """
    a, b = mkv(tup(l1, a1, b1, c1), x1), mkv(tup(l2, a2, b2, c2), x2)
    lt = a < b
    eq = a == b
    return (a <= b) == (lt or eq) and (a >= b) == (not lt) and (a != b) == (not eq) and (a > b) == (not lt and not eq)
''', timeout=100, what='the six operators agree with each other')

h('antisym', r'''
def antisym(l1: int, a1: int, b1: int, c1: int, x1: Optional[str], l2: int, a2: int, b2: int, c2: int, x2: Optional[str]) -> bool:
    """
    pre: okn(l1, a1, b1, c1) and okn(l2, a2, b2, c2) and okx(x1) and okx(x2)
    post: _
    """
    a, b = mkv(tup(l1, a1, b1, c1), x1), mkv(tup(l2, a2, b2, c2), x2)
    return (a < b) == (b > a) and (a == b) == (b == a) and (a <= b) == (b >= a)
''', timeout=100, what='swapping operands mirrors the result')

h('transitive', r'''
def transitive(l1: int, a1: int, b1: int, c1: int, x1: Optional[str], l2: int, a2: int, b2: int, c2: int, x2: Optional[str], l3: int, a3: int, b3: int, c3: int, x3: Optional[str]) -> bool:
    """
    pre: okn(l1, a1, b1, c1, 2) and okn(l2, a2, b2, c2, 2) and okn(l3, a3, b3, c3, 2) and okx(x1) and okx(x2) and okx(x3)
    post: _
    """
    a, b, c = mkv(tup(l1, a1, b1, c1), x1), mkv(tup(l2, a2, b2, c2), x2), mkv(tup(l3, a3, b3, c3), x3)
    if a <= b and b <= c and not (a <= c):
        return False
    if a < b and b <= c and not (a < c):
        return False
    if a == b and b == c and not (a == c):
        return False
    return True
''', timeout=90, what='transitivity of <=, <, ==')

h('padding_eq_hash', r'''
def padding_eq_hash(l: int, a: int, b: int, c: int, x: Optional[str], pad: int) -> bool:
    """
    pre: okn(l, a, b, c) and okx(x) and 0 <= pad <= 2
    post: _
    """
    n = tup(l, a, b, c)
    a = mkv(n, x)
    b = mkv(n + ((0,) if pad == 1 else ((0, 0) if pad == 2 else ())), x)
    return (a == b) and not (a != b) and hash(a) == hash(b) and not (a < b) and not (a > b)
''', timeout=40, what='numeric padding: equal and equal hashes')

h('eq_implies_hash', r'''
def eq_implies_hash(l1: int, a1: int, b1: int, c1: int, x1: Optional[str], l2: int, a2: int, b2: int, c2: int, x2: Optional[str]) -> bool:
    """
    pre: okn(l1, a1, b1, c1) and okn(l2, a2, b2, c2) and okx(x1) and okx(x2)
    post: _
    """
    a, b = mkv(tup(l1, a1, b1, c1), x1), mkv(tup(l2, a2, b2, c2), x2)
    if a == b:
        return hash(a) == hash(b)
    return True
''', timeout=60, what='a == b implies hash(a) == hash(b)')

h('eq_hash_tight', r'''
def eq_hash_tight(l1: int, a1: int, b1: int, c1: int, l2: int, a2: int, b2: int, c2: int, sfx: bool) -> bool:
    """
    pre: okn(l1, a1, b1, c1) and okn(l2, a2, b2, c2) and max(a1, b1, c1, a2, b2, c2) <= 1
    post: _
    """
    x = 'a' if sfx else None
    a, b = mkv(tup(l1, a1, b1, c1), x), mkv(tup(l2, a2, b2, c2), x)
    return (hash(a) == hash(b)) if a == b else True
''', timeout=100, what='a == b implies hash(a) == hash(b) (components in {0,1}: exhaustive)')

h('str_roundtrip', r'''
def str_roundtrip(l: int, a: int, b: int, c: int, x: Optional[str]) -> bool:
    """
    pre: okn(l, a, b, c) and okx(x) and a < 1000 and b < 1000 and c < 1000
    post: _
    """
    n = tup(l, a, b, c)
    a = mkv(n, x)
    b = Version(str(a))
    return a == b and tuple(b.version_nums) == tuple(n) and b.version_extra == x and hash(a) == hash(b)
''', timeout=60, what='Version(str(v)) == v')

h('string_operand', r'''
def string_operand(l1: int, a1: int, b1: int, c1: int, x1: Optional[str], l2: int, a2: int, b2: int, c2: int, x2: Optional[str]) -> bool:
    """
    pre: okn(l1, a1, b1, c1, 2) and okn(l2, a2, b2, c2, 2) and okx(x1) and okx(x2) and a1 < 100 and b1 < 100 and a2 < 100 and b2 < 100
    post: _
    """
    a, b = mkv(tup(l1, a1, b1, c1), x1), mkv(tup(l2, a2, b2, c2), x2)
    t = str(b)
    return ((a < t) == (a < b) and (a <= t) == (a <= b) and (a == t) == (a == b)
            and (a != t) == (a != b) and (a >= t) == (a >= b) and (a > t) == (a > b))
''', timeout=60, what='string operands compare like the versions they spell')

h('ctor_text', r'''
def ctor_text(s: str) -> bool:
    """
    pre: len(s) <= 4
    post: _
    """
    try:
        v = Version(s)
    except ValueError:
        return True
    # accepted: must be a sane version equal to its own copy and its printed form
    if not (len(v.version_nums) >= 1 and all(isinstance(k, int) and k >= 0 for k in v.version_nums)):
        return False
    return v == Version(v) and hash(v) == hash(Version(v)) and not (v < v) and v <= v
''', timeout=60, what='constructor: only ValueError; accepted texts give sane versions')

h('ctor_digits', r'''
def ctor_digits(a: int, b: int, c: int, form: int) -> bool:
    """
    pre: 0 <= a <= 99 and 0 <= b <= 99 and 0 <= c <= 99 and 0 <= form <= 3
    post: _
    """
    if form == 0:
        s, nums = '%d' % a, (a,)
    elif form == 1:
        s, nums = '%d.%d' % (a, b), (a, b)
    elif form == 2:
        s, nums = '%d.%d.%d' % (a, b, c), (a, b, c)
    else:
        s, nums = '%d.%da' % (a, b), (a, b)
    v = Version(s)
    return tuple(v.version_nums) == nums and v.version_extra == ('a' if form == 3 else None) and v == mkv(nums, v.version_extra)
''', timeout=60, what='constructor decodes dotted decimals')

h('nearest_official', r'''
def nearest_official(l: int, a: int, b: int, c: int, x: Optional[str]) -> bool:
    """
    pre: okn(l, a, b, c) and okx(x)
    post: _
    """
    reset_modstate()
    v = mkv(tup(l, a, b, c), x)
    r = Version.nearest(v)
    if not any(r is o or (r == o and hash(r) == hash(o)) for o in OFFICIAL):
        return False
    eqs = [o for o in OFFICIAL if o == v]
    if eqs and not (r == v):
        return False
    return True
''', timeout=60, what='nearest(): official, equal when one exists')

h('nearest_monotone', r'''
def nearest_monotone(l1: int, a1: int, b1: int, c1: int, x1: Optional[str], l2: int, a2: int, b2: int, c2: int, x2: Optional[str]) -> bool:
    """
    pre: okn(l1, a1, b1, c1, 2) and okn(l2, a2, b2, c2, 2) and okx(x1) and okx(x2)
    post: _
    """
    reset_modstate()
    a, b = mkv(tup(l1, a1, b1, c1), x1), mkv(tup(l2, a2, b2, c2), x2)
    if a <= b:
        return Version.nearest(a) <= Version.nearest(b)
    return True
''', timeout=60, what='nearest() is monotone')

h('nearest_text', r'''
def nearest_text(a: int, b: int, form: int) -> bool:
    """
    pre: 0 <= a <= 12 and 0 <= b <= 12 and 0 <= form <= 2
    post: _
    """
    reset_modstate()
    s = ['%d' % a, '%d.%d' % (a, b), '%d.%d.0' % (a, b)][form]
    r = Version.nearest(s)
    v = Version(s)
    if form == 0:
        b = 0
    return any(r == o and hash(r) == hash(o) for o in OFFICIAL) and (r in OFFICIAL_VERSIONS) and ((v == r) == ((a, b) in ((2, 0), (3, 0))))
''', timeout=60, what='nearest() on spelled versions incl. 2, 2.0.0, 3.0.0')

h('nearest_history', r'''
def nearest_history(l1: int, a1: int, b1: int, c1: int, x1: Optional[str], l2: int, a2: int, b2: int, c2: int, x2: Optional[str]) -> bool:
    """
    pre: okn(l1, a1, b1, c1, 2) and okn(l2, a2, b2, c2, 2) and okx(x1) and okx(x2)
    post: _
    """
    reset_modstate()
    first, v = mkv(tup(l1, a1, b1, c1), x1), mkv(tup(l2, a2, b2, c2), x2)
    Version.nearest(first)                     # an earlier lookup in the same process
    r = Version.nearest(v)
    if not any(r is o or (r == o and hash(r) == hash(o)) for o in OFFICIAL):
        return False
    eqs = [o for o in OFFICIAL if o == v]
    if eqs and not (r == v):
        return False
    return True
''', timeout=50, what='nearest() after an earlier nearest() of another version: still official, equal when one exists')

h('nearest_history_text', r'''
def nearest_history_text(a1: int, b1: int, s1: int, a2: int, b2: int, s2: int) -> bool:
    """
    pre: 1 <= a1 <= 3 and 0 <= b1 <= 1 and 0 <= s1 < 6 and 1 <= a2 <= 3 and 0 <= b2 <= 1 and 0 <= s2 < 6
    post: _
    """
    reset_modstate()
    sfx = ['', 'a', 'rc1', '.0', '.0a', '.1']
    t1 = t2 = None
    for A in range(1, 4):
        for B in range(0, 2):
            for S in range(6):
                if a1 == A and b1 == B and s1 == S:
                    t1 = '%d.%d%s' % (A, B, sfx[S])
                if a2 == A and b2 == B and s2 == S:
                    t2 = '%d.%d%s' % (A, B, sfx[S])
    Version.nearest(t1)
    r = Version.nearest(t2)
    v = Version(t2)
    if not any(r == o and hash(r) == hash(o) for o in OFFICIAL):
        return False
    eqs = [o for o in OFFICIAL if o == v]
    if eqs and not (r == v):
        return False
    return True
''', timeout=90, what='nearest() on spelled versions after an earlier lookup (suffixed before plain, plain before suffixed)', symx=True)

for _lo in range(0, 30, 5):
    h('suffix_catalogue_%d' % _lo, r'''
def suffix_catalogue_@LO@(l: int, a: int, b: int, c: int, pad: int, i1: int, g2: int, r2: int) -> bool:
    """
    pre: okn(l, a, b, c) and CAT_MINL <= l and max(a, b, c) <= 1 and 0 <= pad <= 1 and @LO@ <= i1 < @LO@ + 5 and 0 <= g2 < 6 and 0 <= r2 < 5
    post: _
    """
    n1 = tup(l, a, b, c)
    n2 = n1 + ((0,) if pad == 1 else ())
    x1, x2 = pick_suffix(i1, @LO@, @LO@ + 5), SUFFIXES[5 * small(g2, 6) + small(r2, 5)]
    a, b = mkv(n1, x1), mkv(n2, x2)
    s = sign(a, b)
    if s is None or s != ref_cmp(n1, x1, n2, x2):
        return False
    lt = a < b
    eq = a == b
    if not ((a <= b) == (lt or eq) and (a >= b) == (not lt) and (a != b) == (not eq) and (a > b) == (not lt and not eq)):
        return False
    if not ((b > a) == lt and (b == a) == eq and (b < a) == (s > 0)):
        return False
    if eq and hash(a) != hash(b):
        return False
    return True
'''.replace('@LO@', str(_lo)), timeout=150, what='versions with equal numeric groups (one optionally zero-padded) and suffixes ending in digits / sharing a stem / differing in case: documented text order, operators agree both ways, equal => equal hash (agreement with a total reference order gives transitivity)', symx=True)


def run(chk):
    chk.bounds = dict(numeric_groups='1..3 (transitivity/monotone/string operand: 1..2)',
                      component_range='unbounded non-negative ints (z3 Int) where not printed; <1000 / <100 where printed',
                      suffix='None or 1 (quick) / 1..2 (thorough) arbitrary code points, first one neither digit nor dot, no newline; plus every ordered pair from a catalogue of 30 suffixes of up to 4 characters (trailing digits, shared stems, case, blanks, punctuation) on versions with equal numeric groups (1..3 groups, components in {0,1}), one optionally zero-padded',
                      histories='nearest() after one earlier nearest() call in the same process (module state reset to its import-time value before each path)',
                      ctor_text_len='<=4 arbitrary code points')
    chk.assumptions = [
        'Version objects are built field-wise (version_nums tuple, version_extra) exactly as Version.__init__ leaves them; the constructor itself is covered by ctor_text/ctor_digits/str_roundtrip',
        'CrossHair 0.0.110 models of int/str/list/tuple/re are trusted; counterexamples are replayed on plain CPython',
        'a suffix is None or non-empty text starting with a non-digit (what VERSION_RE group 2 can capture)',
    ]
    chk.trusted = ['crosshair-tool 0.0.110', 'z3 (via crosshair)', 'reference order ref_cmp written from the version.py module docstring']
    for f in ('hszinc/version.py',):
        chk.note_source(f)
    chk.functions.update(['hszinc.version.Version.__init__', 'Version._cmp', 'Version.__hash__', 'Version.__str__',
                          'Version.__lt__/__le__/__eq__/__ne__/__ge__/__gt__', 'Version.nearest'])
    hs = [x for x in H if not chk.only or chk.only in x.name]
    scale = 1 if chk.tier == 'quick' else 5
    for x in hs:
        x.timeout = x.timeout * scale
    prelude = PRELUDE.replace('@MAXX@', '1' if chk.tier == 'quick' else '2').replace('@CATMINL@', '1')
    sx = [x for x in hs if x.name in SYMX_HARNESSES]
    import threading
    th = threading.Thread(target=lambda: symrun.run_harnesses(chk, prelude, sx)) if sx else None      # the two engines work side by side
    if th:
        th.start()
    xhair.run_harnesses(chk, prelude, [x for x in hs if x.name not in SYMX_HARNESSES])
    if th:
        th.join()
    return chk.finish(rule='one CrossHair condition per harness function; each is explored path by path with z3 deciding '
                           'feasibility of every branch over symbolic ints/strings; distinct_nontrivial = harnesses whose '
                           'reachability twin was refuted (non-vacuous) and that were explored without counterexample',
                      exhaustive=not chk.inconclusive)
