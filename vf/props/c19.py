"""C19 - equality of Haystack values and grids is a lawful, kind-aware relation
(symx explorer: native execution of the real __eq__/__ne__/__hash__ code, z3-decided branches)."""
from .. import common, xhair, symrun

PRELUDE = r'''
import copy, datetime
from hszinc.datatypes import Quantity, Coordinate, Uri, Bin, XStr, Ref, MARKER, NA, REMOVE, Qty
from hszinc.grid import Grid
import pytz

def conc(x, lo, hi):
    for d in range(lo, hi + 1):
        if x == d:
            return d
    return lo

STRS = ['', 'a', 'b', 'n:1', 'a b']
FLOATS = [0.0, 1.0, -1.5, 1e-7, float('inf'), float('nan')]
UNITS = [None, 'm', 's', '']
NAMES = ['a', 'b']
XS = [('hex', '00'), ('b64', 'AA=='), ('text', '00'), ('text', 'x'), ('hex', '01')]
UTC = pytz.utc
PARIS = pytz.timezone('Europe/Paris')
DTS = [datetime.date(2020, 1, 1), datetime.date(2020, 1, 2), datetime.time(1, 2, 3), datetime.time(1, 2, 4),
       UTC.localize(datetime.datetime(2020, 1, 1, 1, 2, 3)), PARIS.localize(datetime.datetime(2020, 1, 1, 1, 2, 3)),
       UTC.localize(datetime.datetime(2020, 1, 1, 1, 2, 4))]

# kinds: (name, eq-class).  Values in different eq-classes must be unequal; inside class 'num' the numeric value decides.
KINDS = ['none', 'bool', 'int', 'float', 'qty_int', 'qty_float', 'str', 'uri', 'bin', 'ref', 'ref_dis', 'ref_hv', 'xstr',
         'coord', 'marker', 'na', 'remove', 'dt']
NKINDS = len(KINDS)
CLASS = {'none': 'none', 'bool': 'num', 'int': 'num', 'float': 'num', 'qty_int': 'num', 'qty_float': 'num', 'str': 'str', 'uri': 'uri',
         'bin': 'bin', 'ref': 'ref', 'ref_dis': 'ref', 'ref_hv': 'ref', 'xstr': 'xstr', 'coord': 'coord', 'marker': 'marker',
         'na': 'na', 'remove': 'remove', 'dt': 'dt'}

def mk(kind, p, q):
    """value of the selected kind; p, q are symbolic payload seeds.  Returns (kindname, value, key) where key is a
    plain-Python description of the payload used by the reference equality."""
    k = KINDS[conc(kind, 0, NKINDS - 1)]
    if k == 'none':
        return k, None, ()
    if k == 'bool':
        b = bool(p == 1)
        return k, b, (1 if b else 0,)
    if k == 'int':
        return k, p, (p,)
    if k == 'float':
        f = FLOATS[conc(p, 0, len(FLOATS) - 1)]
        return k, f, (f,)
    if k == 'qty_int':
        u = UNITS[conc(q, 0, len(UNITS) - 1)]
        return k, Quantity(p, u), (p, u)
    if k == 'qty_float':
        f = FLOATS[conc(p, 0, len(FLOATS) - 1)]
        u = UNITS[conc(q, 0, len(UNITS) - 1)]
        return k, Quantity(f, u), (f, u)
    if k in ('str', 'uri', 'bin'):
        s = STRS[conc(p, 0, len(STRS) - 1)]
        return k, {'str': lambda x: x, 'uri': Uri, 'bin': Bin}[k](s), (s,)
    if k == 'ref':
        n = NAMES[conc(p, 0, 1)]
        return k, Ref(n), (n, None, False)
    if k == 'ref_dis':
        n = NAMES[conc(p, 0, 1)]
        s = STRS[conc(q, 0, len(STRS) - 1)]
        return k, Ref(n, s), (n, s, True)
    if k == 'ref_hv':
        n = NAMES[conc(p, 0, 1)]
        return k, Ref(n, None, has_value=True), (n, None, True)
    if k == 'xstr':
        e, d = XS[conc(p, 0, len(XS) - 1)]
        v = XStr(e, d)
        return k, v, (bytes(v.data) if not isinstance(v.data, str) else v.data,)
    if k == 'coord':
        return k, Coordinate(p, q), (p, q)
    if k == 'marker':
        return k, MARKER, ()
    if k == 'na':
        return k, NA, ()
    if k == 'remove':
        return k, REMOVE, ()
    d = DTS[conc(p, 0, len(DTS) - 1)]
    return k, d, (d,)

def isnan(x):
    return isinstance(x, float) and x != x

def has_nan(key):
    return any(isnan(x) for x in key)

def ref_equal(ka, keya, kb, keyb):
    """reference equality: None = 'must raise TypeError' (two quantities with different units)"""
    ca, cb = CLASS[ka], CLASS[kb]
    if ca != cb:
        return False
    if ca == 'num':
        qa, qb = ka.startswith('qty'), kb.startswith('qty')
        if qa and qb and keya[1] != keyb[1]:
            return None
        return bool(keya[0] == keyb[0])
    if ca == 'coord':
        return bool(keya[0] == keyb[0]) and bool(keya[1] == keyb[1])
    return keya == keyb

def outcome(f):
    try:
        return ('ok', f())
    except Exception as e:
        return ('raises', type(e).__name__)

def truth(x):
    """a comparison result as a plain bool; anything that is not a boolean is reported as 'notbool'"""
    if isinstance(x, bool):
        return x
    if type(x).__name__ == 'SymBool':
        return bool(x)
    return 'notbool'

def hashable(v):
    try:
        hash(v)
        return True
    except TypeError:
        return False
'''

H = []


def add(name, sig, pre, body, what, timeout=60, split=None):
    if split:
        for tag, cond in split:
            add('%s_%s' % (name, tag), sig, pre + ' and ' + cond, body, what + ' [%s]' % cond, timeout)
        return
    src = 'def %s(%s) -> bool:\n    """\n    pre: %s\n    post: _\n    """\n%s\n' % (
        name, sig, pre, '\n'.join('    ' + l for l in body.strip('\n').split('\n')))
    H.append(xhair.Harness(name, src, timeout=timeout, what=what))


PAIR_SIG = 'ka: int, pa: int, qa: int, kb: int, pb: int, qb: int'
PAIR_PRE = '0 <= ka < NKINDS and 0 <= kb < NKINDS'
KSPLIT = [('ka%d' % i, 'ka == %d' % i) for i in range(18)]

add('pair_laws', PAIR_SIG, PAIR_PRE, '''
na, a, keya = mk(ka, pa, qa)
nb, b, keyb = mk(kb, pb, qb)
want = ref_equal(na, keya, nb, keyb)
r = [outcome(lambda: a == b), outcome(lambda: a != b), outcome(lambda: b == a), outcome(lambda: b != a)]
if want is None:
    return all(x == ('raises', 'TypeError') for x in r)
if any(x[0] != 'ok' for x in r):
    return False
eq, ne, eq2, ne2 = [truth(x[1]) for x in r]
if 'notbool' in (eq, ne, eq2, ne2):
    return False
# complementary, symmetric, and equal to the kind-aware reference
return (eq != ne) and (eq == eq2) and (ne == ne2) and (eq == want)
''', '== / != never raise (except Quantity unit mismatch), are symmetric, complementary and kind-aware', split=KSPLIT, timeout=90)

add('reflexive_copy_hash', 'ka: int, pa: int, qa: int, how: int', '0 <= ka < NKINDS and 0 <= how <= 2 and -3 <= pa <= 3 and -3 <= qa <= 3', '''
na, a, keya = mk(ka, pa, qa)
how = conc(how, 0, 2)
if how == 0:
    nb, b, keyb = mk(ka, pa, qa)          # rebuilt from the same arguments
elif how == 1:
    b = copy.copy(a)
else:
    b = copy.deepcopy(a)
if has_nan(keya):
    return True                            # IEEE: nan != nan, not hszinc's code
if not (truth(a == b) is True and truth(a != b) is False and truth(a == a) is True and truth(a != a) is False):
    return False
if na in ('marker', 'na', 'remove') and b is not a:
    return False
if hashable(a) != hashable(b):
    return False
return (hash(a) == hash(b)) if hashable(a) else True
''', 'reflexive; equal to its copy / deepcopy / rebuilt twin; equal hashable values hash equally; singletons stay unique', timeout=90)

add('hash_num_kinds', 'ka: int, pa: int, qa: int, kb: int, pb: int, qb: int',
    PAIR_PRE + ' and -2 <= pa <= 2 and -2 <= pb <= 2 and -2 <= qa <= 3 and -2 <= qb <= 3', '''
na, a, keya = mk(ka, pa, qa)
nb, b, keyb = mk(kb, pb, qb)
if ref_equal(na, keya, nb, keyb) is not True or has_nan(keya) or has_nan(keyb):
    return True
same_kind = (type(a) is type(b)) or (isinstance(a, Qty) and isinstance(b, Qty))
if same_kind and hashable(a) and hashable(b):
    return hash(a) == hash(b)
return True
''', 'equal hashable values of one kind have equal hashes (int vs float payloads incl.)', split=KSPLIT, timeout=90)

add('triple_transitive', 'ka: int, pa: int, kb: int, pb: int, kc: int, pc: int, u: int',
    '0 <= ka < 6 and 0 <= kb < 6 and 0 <= kc < 6 and 0 <= u <= 1', '''
na, a, keya = mk(ka, pa, u)
nb, b, keyb = mk(kb, pb, u)
nc, c, keyc = mk(kc, pc, u)
if has_nan(keya) or has_nan(keyb) or has_nan(keyc):
    return True
if (a == b) and (b == c):
    return truth(a == c) is True and truth(a != c) is False
return True
''', 'transitivity over the numeric kinds (None, bool, int, float, Quantity with one shared unit)', timeout=120,
    split=[('ka%d' % i, 'ka == %d' % i) for i in range(6)])

add('singletons_in_containers', 'w: int', '0 <= w <= 2', '''
s = [MARKER, NA, REMOVE][conc(w, 0, 2)]
box = {'k': [s, {'n': s}], 't': (s,)}
c1 = copy.copy(box); c2 = copy.deepcopy(box)
return (c2['k'][0] is s and c2['k'][1]['n'] is s and c2['t'][0] is s and c1['k'][0] is s
        and copy.copy(s) is s and copy.deepcopy(s) is s and (s == s) and not (s != s)
        and hash(s) == hash(copy.deepcopy(s)) and not (s == [MARKER, NA, REMOVE][(w + 1) % 3]))
''', 'Marker/NA/Remove stay unique under copy and deepcopy, also inside containers')

GRID_PRE = r'''
def mkgrid(cells, ncols=None, meta=(), colmeta=(), colnames=None):
    """cells: list of rows, each a list of values (None = absent)"""
    ncols = ncols if ncols is not None else (len(cells[0]) if cells else 1)
    names = colnames or ['c%d' % i for i in range(ncols)]
    g = Grid(version='3.0', columns=[(n, list(colmeta) if i == 0 else []) for i, n in enumerate(names)])
    for k, v in meta:
        g.metadata[k] = v
    for row in cells:
        g.append(dict((n, v) for n, v in zip(names, row) if v is not None))
    return g

def geq(a, b):
    r1 = outcome(lambda: a == b); r2 = outcome(lambda: a != b)
    if r1[0] != 'ok' or r2[0] != 'ok':
        return 'raises'
    if truth(r1[1]) == truth(r2[1]):
        return 'not complementary'
    return truth(r1[1])

def cell_equal_ref(na, keya, nb, keyb):
    """Grid equality on a cell: same kind class and same content within the float tolerance"""
    ca, cb = CLASS[na], CLASS[nb]
    if ca != cb:
        return False
    if ca == 'num':
        qa, qb = na.startswith('qty'), nb.startswith('qty')
        if qa != qb:
            return False
        if qa and keya[1] != keyb[1]:
            return False
        x, y = keya[0], keyb[0]
        if isnan(x) or isnan(y):
            return isnan(x) and isnan(y)
        if isinstance(x, float) or isinstance(y, float):
            if x == y:
                return True
            if x in (float('inf'), float('-inf')) or y in (float('inf'), float('-inf')):
                return False
            return bool(abs(x - y) < 0.000001)
        return bool(x == y)
    if ca == 'coord':
        return bool(keya[0] == keyb[0]) and bool(keya[1] == keyb[1])
    if ca == 'dt':
        x, y = keya[0], keyb[0]
        return type(x) is type(y) and x == y
    return keya == keyb
'''

add('grid_cell', PAIR_SIG + ', where: int', PAIR_PRE + ' and 0 <= where <= 2', '''
na, a, keya = mk(ka, pa, qa)
nb, b, keyb = mk(kb, pb, qb)
if na == 'none' or nb == 'none':
    return True
where = conc(where, 0, 2)
x = 'other'
if where == 0:      # row cell
    g1 = mkgrid([[a, x]]); g2 = mkgrid([[b, x]])
elif where == 1:    # grid metadata value
    g1 = mkgrid([[x]], meta=[('m', a)]); g2 = mkgrid([[x]], meta=[('m', b)])
else:               # column metadata value
    g1 = mkgrid([[x]], colmeta=[('m', a)]); g2 = mkgrid([[x]], colmeta=[('m', b)])
want = cell_equal_ref(na, keya, nb, keyb)
return geq(g1, g2) == want and geq(g2, g1) == want
''', 'grids differing in exactly one cell / metadata value / column-metadata value: == is True iff same kind and content (float tolerance), never an exception',
    split=KSPLIT, timeout=120)

add('grid_copy_and_shape', 'ka: int, pa: int, qa: int, diff: int', '0 <= ka < NKINDS and 0 <= diff <= 6', '''
na, a, keya = mk(ka, pa, qa)
g1 = mkgrid([[a, 'x'], ['y', a]], meta=[('m', a), ('n', MARKER)], colmeta=[('u', a)])
g2 = mkgrid([[a, 'x'], ['y', a]], meta=[('m', a), ('n', MARKER)], colmeta=[('u', a)])
if geq(g1, g2) is not True or geq(g1, copy.deepcopy(g1)) is not True or geq(g1, g1) is not True:
    return False
diff = conc(diff, 0, 6)
if diff == 0:
    g2.append({'c0': 'z'})                                  # row count
elif diff == 1:
    g2 = mkgrid([[a, 'x'], ['y', a]], meta=[('m', a), ('n', MARKER)], colmeta=[('u', a)], colnames=['c0', 'cX'])   # column name
elif diff == 2:
    g2.metadata['extra'] = MARKER                           # metadata name
elif diff == 3:
    del g2.metadata['n']
elif diff == 4:
    g2.column['c0']['extra'] = MARKER                       # column metadata name
elif diff == 5:
    g2 = mkgrid([[a, 'x'], ['y', None]], meta=[('m', a), ('n', MARKER)], colmeta=[('u', a)])    # a cell missing on one side
    if na == 'none':
        return True
else:
    g2 = mkgrid([[a, 'x', 'w'], ['y', a, 'w']], meta=[('m', a), ('n', MARKER)], colmeta=[('u', a)])   # extra column
return geq(g1, g2) is False and geq(g2, g1) is False
''', 'a grid equals a faithful copy; any single material difference (row count, column/metadata names, missing cell) gives False both ways',
    split=KSPLIT, timeout=120)

add('grid_vs_nongrid', 'w: int', '0 <= w <= 4', '''
g = mkgrid([['a']])
o = [None, 5, 'x', [], {}][conc(w, 0, 4)]
return geq(g, o) is False
''', 'a grid compared with a non-grid is unequal, not an exception')


def run(chk):
    quick = chk.tier == 'quick'
    chk.bounds = dict(kinds=18, payloads='int payloads: unbounded z3 Ints (hash/copy harnesses: -3..3); strings/floats/units/xstr/date-times from small catalogues chosen by symbolic index',
                      pairs='all ordered kind pairs', triples='numeric kinds (6) cubed', grids='1x2 and 2x2 grids, one differing position')
    chk.assumptions = ['IEEE nan != nan is outside hszinc: reflexivity/copy equality are not demanded for NaN payloads (but Grid equality treats NaN cells as equal to themselves)',
                       'numeric kinds (bool, int, float, Quantity vs plain number) compare by value; two Quantities with different units raise TypeError (documented)',
                       'XStr equality is by decoded data (as documented in the class)',
                       'MODE_PINT off']
    chk.trusted = ['symx explorer (proxies + z3)', 'reference equality ref_equal / cell_equal_ref in the harness prelude']
    for f in ('hszinc/datatypes.py', 'hszinc/grid.py'):
        chk.note_source(f)
    chk.functions.update(['Qty._cmp_op/__eq__/__ne__/__hash__', 'Coordinate.__eq__/__ne__/__hash__', 'Uri.__eq__', 'Bin.__eq__', 'XStr.__eq__',
                          'Ref.__eq__/__ne__/__hash__', 'Singleton.__copy__/__deepcopy__/__hash__', 'Grid.__eq__', 'Grid._approx_check'])
    hs = [x for x in H if not chk.only or chk.only in x.name]
    if not quick:
        for x in hs:
            x.timeout *= 6
    symrun.run_harnesses(chk, PRELUDE + GRID_PRE, hs)
    return chk.finish(rule='one symx exploration per (law, first operand kind): operand kinds are symbolic selectors over an 18-kind catalogue, numeric payloads '
                           'symbolic ints; the real __eq__/__ne__/__hash__/Grid.__eq__ run natively and every branch on a symbolic value is decided by z3; '
                           'non-trivial = completed paths with at least one symbolic decision', exhaustive=not chk.inconclusive)
