"""C15 - lookup by id reflects the rows currently in the grid (see gridsteps.py)."""
from .gridsteps import run_obs


def run(chk):
    return run_obs(chk, 'id')
