"""C17 - date-times keep instant, offset and zone through every zone and DST transition.
E3: the zone-name maps and the pytz transition tables are read from the live objects; z3 answers the table queries
(maps mutually inverse and one-to-one; every tabulated offset is a whole number of minutes within a day); the table is
then validated against the implementation exhaustively: every (zone, tabulated transition, delta, microsecond) and every
(fixed offset, local time) goes through the real writers and readers."""
import json
import os
import subprocess
import sys
import time
from concurrent.futures import ThreadPoolExecutor

from .. import common


def zone_names():
    code = ("import sys,io,contextlib\nsys.path.insert(0,%r)\nwith contextlib.redirect_stdout(io.StringIO()):\n  import hszinc\n"
            "from hszinc import zoneinfo\nprint(' '.join(sorted(zoneinfo.get_tz_map().keys())))") % common.REPO
    p = subprocess.run([sys.executable, '-c', code], capture_output=True, text=True)
    return p.stdout.split()


def zone_map():
    code = ("import sys,io,contextlib,json\nsys.path.insert(0,%r)\nwith contextlib.redirect_stdout(io.StringIO()):\n  import hszinc\n"
            "from hszinc import zoneinfo\nprint(json.dumps({k: str(v) for k, v in zoneinfo.get_tz_map().items()}))") % common.REPO
    p = subprocess.run([sys.executable, '-c', code], capture_output=True, text=True)
    try:
        return json.loads(p.stdout.strip().split('\n')[-1])
    except Exception:
        return {}


def run(chk):
    quick = chk.tier == 'quick'
    zones = zone_names()
    if not zones:
        chk.fault('cannot read the zone map')
        return chk.finish('no zones', False)
    jobs = [dict(mode='tables', name='tables')]
    nchunk = 14
    per = (len(zones) + nchunk - 1) // nchunk
    deltas = [-1800, -1, 0, 1, 1800] if quick else [-3600, -1800, -61, -1, 0, 1, 59, 1800, 3600]
    micros = [0, 999999] if quick else [0, 1, 500000, 999999]
    for i in range(0, len(zones), per):
        jobs.append(dict(mode='transitions', name='transitions-%s..%s' % (zones[i], zones[min(len(zones), i + per) - 1]), zones=zones[i:i + per], deltas=deltas, micros=micros))
    offs = list(range(-14 * 60, 14 * 60 + 1, 15 if quick else 1))
    if quick:
        offs += [-1, 1, 7, -419, 421, 344, 346, -181, 599]
    oc = 8 if quick else 16
    pero = (len(offs) + oc - 1) // oc
    for i in range(0, len(offs), pero):
        jobs.append(dict(mode='fixed', name='fixed-offsets-%d..%d' % (offs[i], offs[min(len(offs), i + pero) - 1]), offsets=offs[i:i + pero]))
    zmap = zone_map()
    from .. import c17worker as _w
    for first in _w.FIRST_OPS:
        jobs.append(dict(mode='order', name='order-first-%s' % first, first=first, zmap=zmap))
    if chk.only:
        jobs = [j for j in jobs if chk.only in j['name']]
    chk.bounds = dict(zones=len(zones), process_histories='fresh processes whose first zone-related operation is a ZINC read, a JSON read, a name lookup, a write of one zone or a failed lookup; afterwards every mapped zone (values built from the zone database) x 2 instants x both formats', instants='every transition instant tabulated by pytz for every mapped zone, +- %r seconds, microseconds %r' % (deltas, micros),
                      fixed_offsets='%d whole-minute offsets in -14h..+14h x 10 local times (ordinary, skipped and ambiguous in US/EU/AU/Egypt/Lord Howe rules)' % len(offs),
                      formats=['zinc', 'json'])
    chk.assumptions = ['pytz\'s tables and calendar arithmetic, datetime.isoformat and iso8601.parse_date are library code: they are exercised, not re-derived',
                       'instants whose local offset is not a whole number of minutes (none in pytz\'s rounded tables - decided by the table query) or whose year leaves 2..9998 are outside the claim',
                       'the table is exhaustively enumerated rather than abstracted: z3 decides the table-level queries (bijection of the maps, offset form); each tabulated instant is then run on the real code']
    chk.trusted = ['z3 (table queries)', 'pytz / datetime / iso8601', 'vf/c17worker.py']
    for f in ('hszinc/zoneinfo.py', 'hszinc/zincparser.py', 'hszinc/jsonparser.py', 'hszinc/zincdumper.py', 'hszinc/jsondumper.py'):
        chk.note_source(f)
    chk.functions.update(['hszinc.zoneinfo._map_timezones', 'get_tz_map', 'get_tz_rmap', 'timezone', 'timezone_name', 'zincdumper.dump_date_time', 'jsondumper.dump_date_time',
                          'zincparser.hs_dateTime/_parse_datetime', 'jsonparser DATETIME_RE branch'])
    env = dict(os.environ)
    env['HSZINC_REPO'] = common.REPO
    env['PYTHONPATH'] = common.VERIF
    pyexe = sys.executable

    def work(j):
        t0 = time.time()
        try:
            p = subprocess.run([pyexe, '-m', 'vf.c17worker', json.dumps(j)], capture_output=True, text=True, env=env, timeout=3000, cwd=common.VERIF)
            out, err = p.stdout, p.stderr
        except subprocess.TimeoutExpired:
            out, err = '', 'outer timeout'
        res = None
        for ln in out.split('\n'):
            if ln.startswith('C17-RESULT '):
                res = json.loads(ln[len('C17-RESULT '):])
        return j, res, err, time.time() - t0

    with ThreadPoolExecutor(max_workers=common.NCPU) as ex:
        results = list(ex.map(work, jobs))
    for j, res, err, wall in results:
        name = j['name']
        if res is None or res.get('status') == 'fault':
            chk.query(name, 'inconclusive', wall, detail=((res or {}).get('error') or err)[-400:])
            chk.fault('worker failed for %s: %s' % (name, ((res or {}).get('error') or err)[-400:]))
            continue
        if j['mode'] == 'tables':
            chk.n_solver_queries += res['queries']
            chk.solver_s += res['solver_s']
            chk.n_paths += res['zones']
            bad = [p for p in res['problems'] if not (isinstance(p, list) and p and p[0] == 'lmt')]
            lmt = [p for p in res['problems'] if isinstance(p, list) and p and p[0] == 'lmt']
            chk.extra['zones_with_sub_minute_offsets'] = [p[1] for p in lmt][:20]
            if bad:
                body = ('sys.path.insert(0, %r)\nfrom hszinc import zoneinfo\nm, r = zoneinfo.get_tz_map(), zoneinfo.get_tz_rmap()\n'
                        'ok = len(set(m.values())) == len(m) and all(r.get(o) == n for n, o in m.items()) and all(m.get(n) == o for o, n in r.items())\n'
                        'if not ok:\n    VIOLATED("zone name maps are not mutually inverse / one-to-one")\nHOLDS()\n') % common.VERIF
                v = chk.candidate('maps', body, 'zone-name maps: %s' % bad[0], model=bad[0])
                chk.query(name, 'counterexample:' + v, wall, message=str(bad[0])[:200])
            else:
                chk.query(name, 'unsat:holds', wall, queries=res['queries'], solver_s=res['solver_s'])
            continue
        chk.n_paths += res['n']
        chk.n_nontrivial += res['n']
        chk.validated += res['n']
        if res['fails']:
            for f in res['fails'][:2]:
                if j['mode'] == 'order':
                    body = ('sys.path.insert(0, %r)\nfrom vf import c17worker as w\nmsg = w.replay_order(hszinc, %r, %r, %r)\n'
                            'if msg is not None:\n    VIOLATED(msg)\nHOLDS()\n') % (common.VERIF, j['first'], j['zmap'], f['zone'])
                    what = 'zone %s: %s' % (f['zone'], f['what'])
                elif j['mode'] == 'transitions':
                    body = ('sys.path.insert(0, %r)\nfrom vf import c17worker as w\nmsg = w.replay_transition(hszinc, %r, %r)\n'
                            'if msg is not None:\n    VIOLATED(msg)\nHOLDS()\n') % (common.VERIF, f['zone'], f['utc'])
                    what = 'zone %s at %s UTC: %s' % (f['zone'], f['utc'], f['what'])
                else:
                    body = ('sys.path.insert(0, %r)\nfrom vf import c17worker as w\nmsg = w.replay_fixed(hszinc, %r, %r)\n'
                            'if msg is not None:\n    VIOLATED(msg)\nHOLDS()\n') % (common.VERIF, f['offset_min'], f['local'])
                    what = 'fixed offset %+d min at local %r: %s' % (f['offset_min'], f['local'], f['what'])
                v = chk.candidate(name, body, what, model=f)
                chk.query(name, 'counterexample:' + v, wall, message=f['what'][:200])
                chk.samples.append(dict(f, replay=v))
                if v == 'violation':
                    break
        else:
            chk.query(name, 'enumerated:holds', wall, cases=res['n'])
            if len(chk.samples) < 6:
                chk.samples.append({'scenario': name, 'cases': res['n']})
    return chk.finish(rule='z3 decides the table-level queries (4 map queries + one offset-form query per zone); the tables are then validated against the implementation: every tabulated '
                           '(zone, transition, delta, microsecond) and (fixed offset, local time) is executed through the real writers and readers (counted in traces_validated_against_impl)',
                      exhaustive=not chk.inconclusive)
