"""C09 - malformed ZINC raises ZincParseException: never mis-parsed, never a crash.
One symbolic character substituted into / inserted in concrete well-formed documents at every position; the real
reader and the independent reference reader run on the symbolic text (E2 symx)."""
import json
import os
import subprocess
import sys
import time
from concurrent.futures import ThreadPoolExecutor

from .. import common
from .. import mutworker


def make_jobs(prop, tier, only=None):
    quick = tier == 'quick'
    jobs = []
    for name, text in mutworker.GRID_DOCS.items():
        parts = max(1, len(text) // (12 if quick else 8))
        stride = 3 if quick else 1
        for ph in range(parts):
            jobs.append(dict(prop=prop, docs=[name], stride=parts * stride, phase=ph * stride, nparts=parts, part=ph, timeout=120 if quick else 600, no_unicode_digits=quick))
    snames = [n for n in mutworker.SCALAR_DOCS if not (prop == 'C09' and n in ('dtfold', 'dtfold2'))]      # decoding of repeated-hour date-times is C03's subject
    for i in range(0, len(snames), 2):
        jobs.append(dict(prop=prop, docs=snames[i:i + 2], scalar=True, timeout=120 if quick else 600, no_unicode_digits=quick))
    # fully symbolic short scalar texts: every character an unconstrained code point (all texts of that length)
    for d in ('short1', 'short2', 'short1v2', 'short2v2'):
        jobs.append(dict(prop=prop, docs=[d], scalar=True, ops=['all'], timeout=300))
    if not quick:
        for d in ('short3', 'short3v2'):
            for part in mutworker.FIRST_PARTS:
                jobs.append(dict(prop=prop, docs=[d], scalar=True, ops=['all'], alphabet=part, timeout=1800))
        # two adjacent symbolic characters at every position of the scalar corpus
        for name in snames:
            if prop == 'C09' and name in ('date', 'time', 'time6', 'dt', 'dtz'):
                continue        # two symbolic digits reach strptime/iso8601 after forking over 100 digit pairs per position: hours per document
            jobs.append(dict(prop=prop, docs=[name], scalar=True, ops=['replace2'], timeout=1800))
    if only:
        jobs = [j for j in jobs if only in ','.join(j['docs'])]
    return jobs


def run_mut_jobs(chk, jobs):
    env = dict(os.environ)
    env['HSZINC_REPO'] = common.REPO
    env['PYTHONPATH'] = common.VERIF
    pyexe = sys.executable

    def work(j):
        t0 = time.time()
        try:
            p = subprocess.run([pyexe, '-m', 'vf.mutworker', json.dumps(j)], capture_output=True, text=True, env=env, timeout=3600, cwd=common.VERIF)
            out, err = p.stdout, p.stderr
        except subprocess.TimeoutExpired:
            out, err = '', 'outer timeout'
        res = None
        for ln in out.split('\n'):
            if ln.startswith('MUT-RESULT '):
                res = json.loads(ln[len('MUT-RESULT '):])
        return j, res, err, time.time() - t0

    with ThreadPoolExecutor(max_workers=common.NCPU) as ex:
        results = list(ex.map(work, jobs))
    seen_what = {}
    for j, res, err, wall in results:
        name = '%s:%s%s/%d+%d' % (j['prop'], ','.join(j['docs']), '(scalar)' if j.get('scalar') else '', j.get('stride', 1), j.get('phase', 0))
        if j.get('ops') and j['ops'] != ['replace']:
            name += '[%s]' % '+'.join(j['ops'])
        if j.get('alphabet'):
            name += '[c0 in %s]' % ','.join('%x-%x' % (lo, hi) for lo, hi in j['alphabet'])
        if res is None or res.get('status') == 'fault':
            chk.query(name, 'inconclusive', wall, detail=((res or {}).get('error') or err)[-500:])
            chk.fault('worker failed for %s: %s' % (name, ((res or {}).get('error') or err)[-500:]))
            continue
        st = res['stats']
        chk.n_paths += st['paths']
        chk.n_solver_queries += st['checks']
        chk.solver_s += st['solver_s']
        chk.n_nontrivial += st['nontrivial']
        chk.functions.update(res.get('functions', []))
        chk.extra.setdefault('concretised_calls', [])
        for c in res.get('conc_calls', []):
            if c not in chk.extra['concretised_calls']:
                chk.extra['concretised_calls'].append(c)
        kw = dict(explorations=st['explorations'], paths=st['paths'], solver_checks=st['checks'], solver_s=round(st['solver_s'], 2))
        if st['errors']:
            chk.query(name, 'inconclusive', wall, detail='; '.join(st['errors'][:3])[:400], **kw)
            chk.fault('unsupported operation in %s: %s' % (name, st['errors'][0][:300]))
        elif st['budget']:
            chk.query(name, 'budget:no-counterexample', wall, **kw)
            chk.inconclusive.append(name)
        elif not res['cex']:
            chk.query(name, 'unsat:holds', wall, **kw)
        for fname, msg in res.get('forms_failures', []):
            body = ('sys.path.insert(0, %r)\n'
                    'from vf import mutworker as mw\n'
                    'msg = getattr(mw, %r)(hszinc, %r, %r)\n'
                    'if msg is not None:\n'
                    '    VIOLATED(msg)\n'
                    'HOLDS()\n') % (common.VERIF, 'replay_corpus' if j.get('corpus') else ('replay_canary' if j.get('canary') else ('replay_zforms' if j.get('zforms') else 'replay_forms')), j, fname)
            tag = '%s-form-%s' % (j['prop'], fname)
            verdict = chk.candidate(tag, body, '%s: input form %s: %s' % (j['prop'], fname, msg[:300]), model=fname)
            chk.query(tag, 'counterexample:' + verdict, wall, model=fname, message=msg[:200])
            chk.samples.append({'form': fname, 'what': msg[:200], 'replay': verdict})
            if verdict == 'spurious':
                chk.fault('non-reproducing concrete failure for %s' % tag)
        for c in res['cex']:
            key = (c['what'][:60], c['doc'])
            seen_what[key] = seen_what.get(key, 0) + 1
            if seen_what[key] > 2:
                continue
            body = ('sys.path.insert(0, %r)\n'
                    'from vf import mutworker as mw\n'
                    'job = %r\nc = %r\n'
                    'msg = mw.replay(hszinc, job, c)\n'
                    'if msg is not None:\n'
                    '    VIOLATED(msg)\n'
                    'HOLDS()\n') % (common.VERIF, j, c)
            tag = '%s-%s-%s%d' % (j['prop'], c['doc'], c['op'], c['pos'])
            what = '%s: document %r, %s at %d of %r: %s' % (j['prop'], c['doc'], c['op'], c['pos'], c['char'], c['what'])
            verdict = chk.candidate(tag, body, what, kf_key=kf_key_for(c), model=c)
            chk.query(tag, 'counterexample:' + verdict, wall, model=repr(c['char']), message=c['what'][:200])
            chk.samples.append({'doc': c['doc'], 'op': c['op'], 'pos': c['pos'], 'char': c['char'], 'what': c['what'], 'replay': verdict})
            if verdict == 'spurious':
                chk.fault('non-reproducing model for %s' % tag)
    return results


PROBE_LIMIT_S = 20


def termination_texts():
    """malformed inputs of 60-400 characters: a literal that fails to close after a long run of ordinary characters, deep nesting,
    long separators.  Parsing each must end (with grids or an exception) well within PROBE_LIMIT_S seconds."""
    run = 'abcdefghij' * 6
    bad = [('unterminated string', '"' + run), ('illegal escape at the end', '"' + run + '\\q"'), ('raw control character at the end', '"' + run + '\x01"'),
           ('unterminated uri', '`http://' + run), ('uri with illegal escape', '`' + run + '\\q`'), ('ref with unterminated display', '@abc "' + run),
           ('xstr with unterminated payload', 'Span("' + run), ('blanks then junk', '"' + ' ' * 80 + '\x02'), ('escapes then unterminated', '"' + '\\n' * 40),
           ('unicode escapes then bad', '"' + '\\u00e9' * 20 + '\\u00zz"'), ('deep lists', '[' * 40), ('deep lists closed wrongly', '[' * 30 + '}' * 30),
           ('deep dicts', '{a:' * 30), ('many commas', '[' + ',' * 200), ('long digits then junk', '1' * 200 + '_x!'), ('long exponent', '1e' + '9' * 200 + 'x"'),
           ('nested grids', '<<' * 20), ('long tag name then junk', 'a' * 300 + '!')]
    out = []
    for name, t in bad:
        out.append((name + ' (scalar)', 'scalar', t))
        out.append((name + ' (cell)', 'grid', 'ver:"3.0"\na,b\n1,' + t + '\n2,3\n'))
    out.append(('long unterminated string in metadata', 'grid', 'ver:"3.0" dis:"' + run + '\na\n1\n'))
    out.append(('long unterminated version', 'grid', 'ver:"3.0' + run + '\na\n1\n'))
    return out


PROBE_CODE = ('''import sys, io, contextlib
sys.path.insert(0, %r)
with contextlib.redirect_stdout(io.StringIO()):
    import hszinc
kind, text = %r, %r
try:
    with contextlib.redirect_stdout(io.StringIO()):
        if kind == 'scalar':
            hszinc.parse_scalar(text, mode=hszinc.MODE_ZINC, version='3.0')
        else:
            hszinc.parse(text, mode=hszinc.MODE_ZINC, single=False)
    print('ENDED ok')
except ValueError as e:
    print('ENDED ValueError')
except Exception as e:
    print('ENDED other %%s' %% type(e).__name__)
''')


def probe(kind, text, limit=PROBE_LIMIT_S):
    try:
        p = subprocess.run([sys.executable, '-c', PROBE_CODE % (common.REPO, kind, text)], capture_output=True, text=True, timeout=limit)
    except subprocess.TimeoutExpired:
        return 'parsing did not end within %d s (input of %d characters)' % (limit, len(text))
    if 'ENDED other' in p.stdout:
        return 'raised ' + p.stdout.split('ENDED other')[1].strip()
    if 'ENDED' not in p.stdout:
        return 'the parser process died: %s' % p.stderr[-120:]
    return None


def termination_probes(chk):
    texts = termination_texts()
    t0 = time.time()
    with ThreadPoolExecutor(max_workers=common.NCPU) as ex:
        res = list(ex.map(lambda x: probe(x[1], x[2]), texts))
    bad = [(n, k, t, r) for (n, k, t), r in zip(texts, res) if r is not None]
    chk.n_paths += len(texts)
    chk.validated += len(texts)
    if not bad:
        chk.query('termination-probes', 'holds(concrete)', time.time() - t0, texts=len(texts))
        return
    for n, k, t, r in bad[:2]:
        body = ('sys.path.insert(0, %r)\nfrom vf.props import c09\nmsg = c09.probe(%r, %r)\n'
                'if msg is not None:\n    VIOLATED(%r + msg)\nHOLDS()\n') % (common.VERIF, k, t, n + ': ')
        v = chk.candidate('termination-' + n.replace(' ', '_')[:40], body, 'C09 termination: %s: %s' % (n, r), model=t[:80])
        chk.query('termination-probes', 'counterexample:' + v, time.time() - t0, message=('%s: %s' % (n, r))[:200])
        chk.samples.append({'probe': n, 'what': r, 'replay': v})


def kf_key_for(c):
    return None


def run(chk):
    jobs = make_jobs('C09', chk.tier, chk.only)
    quick = chk.tier == 'quick'
    chk.bounds = dict(documents=sorted(mutworker.GRID_DOCS) + ['scalar:' + k for k in sorted(mutworker.SCALAR_DOCS)],
                      mutation='one symbolic code point (U+0000..U+10FFFF minus surrogates) replacing the character at position i, or inserted before position i',
                      positions='every third position (quick) / every position (thorough) of 7 grid documents (40-230 chars); every position of 17 scalar texts',
                      nesting='lists/dicts/nested grid to depth 2',
                      fully_symbolic='every scalar text of 1..2 (quick) / 1..3 (thorough) code points, versions 2.0 and 3.0; thorough: two adjacent symbolic characters at every position of the scalar corpus (date/time texts: single positions only)')
    chk.assumptions = ['a single mutated position per grid document; adjacent pairs on scalars in the thorough tier only (other two-position interactions outside the claim)',
                       'over-acceptance is reported only when the independent reference rejects for a structural reason the property names: ' + ', '.join(mutworker.STRUCTURAL),
                       '(line, col) == (0, 0) is the class\'s documented "unknown position" and counts as within the text',
                       'termination: every exploration ran to completion within its time budget (the work list emptied); plus %d concrete malformed texts of 60-400 characters (unclosed literals after long runs, deep nesting, long separators) each parsed in its own process under a %d s limit' % (len(termination_texts()), PROBE_LIMIT_S),
                       'C-level conversions reached with a symbolic character (float, strptime, iso8601, fromhex, b64decode) are executed after exhaustive forking over the character\'s feasible values (<=700), see concretised_calls']
    chk.trusted = ['symx engine', 'vf/spec/zinc_ref.py', 'z3']
    for f in ('hszinc/zincparser.py', 'hszinc/parser.py', 'hszinc/version.py', 'hszinc/grid.py', 'hszinc/datatypes.py'):
        chk.note_source(f)
    if not chk.only or 'termination' in chk.only:
        termination_probes(chk)       # first: a reader that does not terminate would also stall the symbolic runs below
        if chk.violations:
            return chk.finish(rule='termination probes failed; the symbolic runs were not started', exhaustive=False)
    run_mut_jobs(chk, jobs)
    return chk.finish(rule='one exhaustive symbolic exploration per (document, position, replace|insert): the real parse()/parse_scalar() and the reference reader run on the '
                           'text with one symbolic character; every path is classified (grids / ZincParseException with position inside the text / other exception / '
                           'structurally broken text accepted); non-trivial = completed paths with a symbolic decision', exhaustive=not chk.inconclusive)
