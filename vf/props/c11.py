"""C11 - Grid.filter selects exactly the rows the Haystack filter denotes (symx explorer on the real
parse_filter -> generated Python -> Grid.filter pipeline; rows symbolic; independent reference evaluator)."""
import itertools

from .. import common, xhair, symrun

PRELUDE = r'''
import datetime
from hszinc.grid import Grid
from hszinc.datatypes import Quantity, Ref, Uri, MARKER, NA, REMOVE, Coordinate, XStr, Bin
import hszinc.grid_filter as GF

def conc(x, lo, hi):
    for d in range(lo, hi + 1):
        if x == d:
            return d
    return lo

ABSENT = ('absent',)

# ---- independent reference evaluator of filter ASTs (tuples) -----------------------------------------
def r_resolve(rows, row, path):
    obj = row
    for i, name in enumerate(path):
        if not isinstance(obj, dict) or name not in obj:
            return ABSENT
        v = obj[name]
        if i != len(path) - 1:
            if not isinstance(v, Ref):
                return ABSENT
            hit = [r for r in rows if 'id' in r and str(r['id']) == str(v.name)]
            if not hit:
                return ABSENT
            obj = hit[-1]
        else:
            return ABSENT if v is None else v          # a null cell: the entity does not have the tag
    return obj

def kind_of(v):
    if isinstance(v, bool) or type(v).__name__ == 'SymBool':
        return 'bool'
    if isinstance(v, (int, float)) or type(v).__name__ in ('SymInt', 'SymReal'):
        return 'num'
    if type(v).__name__ in ('BasicQuantity', 'PintQuantity'):
        return 'num'
    if isinstance(v, Uri):
        return 'uri'
    if isinstance(v, Bin):
        return 'bin'
    if isinstance(v, str):
        return 'str'
    if isinstance(v, Ref):
        return 'ref'
    if isinstance(v, datetime.datetime):
        return 'datetime'
    if isinstance(v, datetime.date):
        return 'date'
    if isinstance(v, datetime.time):
        return 'time'
    return type(v).__name__

def num_parts(v):
    if type(v).__name__ in ('BasicQuantity', 'PintQuantity'):
        return v.value, (v.unit or None)
    return v, None

def r_cmp(op, a, b):
    """Haystack: == is true for equal values of one kind, != for a present value that is not equal (another kind counts as
    not equal), the four orderings only between values of one comparable kind (numbers: same unit); an absent tag never matches"""
    if a is ABSENT:
        return False
    ka, kb = kind_of(a), kind_of(b)
    same_kind = ka == kb
    if same_kind and ka == 'bool' and op not in ('==', '!='):
        return None                     # ordering of booleans: not specified
    if ka != kb and ka in ('str', 'uri', 'bin') and kb in ('str', 'uri', 'bin') and op not in ('==', '!='):
        return None                     # ordering between different text kinds: not specified
    if same_kind and ka == 'num':
        (x, ux), (y, uy) = num_parts(a), num_parts(b)
        if ux != uy:
            if ux is None or uy is None:
                return None             # a quantity against a unit-less number: hszinc compares the values (C20), Haystack says unequal
            same_kind = False
    elif same_kind and ka == 'ref':
        x, y = (a.name, a.value, a.has_value), (b.name, b.value, b.has_value)
    elif same_kind and ka in ('str', 'uri', 'bin'):
        x, y = str.__str__(a), str.__str__(b)
    elif same_kind:
        x, y = a, b
    if op == '==':
        return same_kind and bool(x == y)
    if op == '!=':
        return (not same_kind) or bool(x != y)
    if not same_kind or ka not in ('num', 'str', 'uri', 'bin', 'date', 'time', 'datetime'):
        return False
    if op == '<':
        return bool(x < y)
    if op == '<=':
        return bool(x <= y)
    if op == '>':
        return bool(x > y)
    return bool(x >= y)

def r_eval(node, rows, row):
    t = node[0]
    if t == 'has':
        return r_resolve(rows, row, node[1]) is not ABSENT
    if t == 'not':
        return r_resolve(rows, row, node[1]) is ABSENT
    if t == 'cmp':
        return r_cmp(node[1], r_resolve(rows, row, node[2]), node[3])
    if t == 'and':
        a, b = r_eval(node[1], rows, row), r_eval(node[2], rows, row)
        if a is False or b is False:
            return False
        return None if (a is None or b is None) else True
    if t == 'or':
        a, b = r_eval(node[1], rows, row), r_eval(node[2], rows, row)
        if a is True or b is True:
            return True
        return None if (a is None or b is None) else False
    raise ValueError(t)

def outcome(f):
    try:
        return ('ok', f())
    except Exception as e:
        return ('raises', type(e).__name__)

def mkgrid(rows, version='3.0'):
    cols = []
    for r in rows:
        for k in r:
            if k not in cols:
                cols.append(k)
    g = Grid(version=version, columns=[(c, []) for c in (cols or ['id'])])
    g.metadata['dis'] = 'src'
    for r in rows:
        g.append(r)
    return g

def check_filter(text, ast, rows, limit=0):
    """grid.filter(text, limit) returns exactly the rows the reference selects, in order, truncated to limit;
    version/metadata/columns carried over; the source grid untouched"""
    g = mkgrid(rows)
    before = [dict(r) for r in rows]
    res = outcome(lambda: g.filter(text, limit))
    if res[0] != 'ok':
        return False
    out = res[1]
    verdicts = [r_eval(ast, rows, r) for r in rows]
    got = list(out)
    if any(v is None for v in verdicts):
        # unspecified comparisons: every row the reference selects must be there, no row it excludes, order kept
        if limit:
            return True
        gi = [i for i, r in enumerate(rows) if any(r is x for x in got)]
        if len(gi) != len(got) or gi != sorted(gi):
            return False
        if any(verdicts[i] is False for i in gi) or any(v is True and i not in gi for i, v in enumerate(verdicts)):
            return False
    else:
        want = [r for r, v in zip(rows, verdicts) if v]
        if limit:
            want = want[:limit]
        if len(got) != len(want) or not all(a is b for a, b in zip(got, want)):
            return False
    if str(out.version) != str(g.version) or list(out.metadata.items()) != list(g.metadata.items()) or list(out.column.keys()) != list(g.column.keys()):
        return False
    return len(g) == len(rows) and all(a is b for a, b in zip(list(g), rows)) and [dict(r) for r in rows] == before

def check_on_grid(g, text, ast):
    """same comparison on a grid that already has a history: the rows the reference selects among the grid's current rows"""
    rows = list(g)
    res = outcome(lambda: g.filter(text))
    if res[0] != 'ok':
        return False
    got = list(res[1])
    want = [r for r in rows if r_eval(ast, rows, r) is True]
    return len(got) == len(want) and all(a is b for a, b in zip(got, want)) and len(g) == len(rows)
'''

TAGS = ['ta', 'tb', 'tc', 'td']


def bool_shapes(maxleaves):
    """all and/or trees over has/not leaves on distinct tags, left- and right-nested, <= maxleaves leaves -> (text variants, ast)"""
    out = []

    def leaves(n):
        res = []
        for negs in itertools.product([False, True], repeat=n):
            res.append([('not' if ng else 'has', [TAGS[i]]) for i, ng in enumerate(negs)])
        return res

    def render(node, variant):
        t = node[0]
        if t == 'has':
            return node[1][0]
        if t == 'not':
            return 'not ' + node[1][0]
        l, r = render(node[1], variant), render(node[2], variant)
        if node[1][0] in ('and', 'or') and node[1][0] != t:
            l = '(' + l + ')' if (t == 'and') else (('( %s )' % l) if variant else l)
        if node[2][0] in ('and', 'or'):
            # right operand that is itself a binary node needs parentheses unless precedence gives the same tree
            if not (t == 'or' and node[2][0] == 'and'):
                r = ('(%s)' if not variant else '( %s )') % r
        sep = ' ' if not variant else '  '
        return l + sep + t + sep + r

    def trees(ls):
        if len(ls) == 1:
            return [ls[0]]
        res = []
        for k in range(1, len(ls)):
            for a in trees(ls[:k]):
                for b in trees(ls[k:]):
                    for op in ('and', 'or'):
                        res.append((op, a, b))
        return res
    seen = set()
    for n in range(1, maxleaves + 1):
        for ls in leaves(n):
            for tr in trees(ls):
                for variant in (0, 1):
                    txt = render(tr, variant)
                    if variant == 1 and txt == render(tr, 0):
                        continue
                    if txt in seen:
                        continue
                    seen.add(txt)
                    out.append((txt, tr))
    # flat left-associative chains without parentheses: a and b and c, a or b or c, a and b or c ...
    for ops in itertools.product(['and', 'or'], repeat=maxleaves - 1):
        ls = [('has', [TAGS[i]]) for i in range(maxleaves)]
        txt = ls[0][1][0]
        for i, op in enumerate(ops):
            txt += ' %s %s' % (op, ls[i + 1][1][0])
        # precedence: and binds tighter than or; both left associative
        terms, cur = [], ls[0]
        for i, op in enumerate(ops):
            if op == 'and':
                cur = ('and', cur, ls[i + 1])
            else:
                terms.append(cur)
                cur = ls[i + 1]
        terms.append(cur)
        tree = terms[0]
        for t in terms[1:]:
            tree = ('or', tree, t)
        if txt not in seen:
            seen.add(txt)
            out.append((txt, tree))
    return out


ATOM_LITS = [
    ('5', '5'), ('1', '1'), ('0', '0'), ('"a  b"', '"a  b"'), ('5.5', '5.5'), ('-3', '-3'), ('5m', 'Quantity(5.0, "m")'), ('"abc"', '"abc"'), ('"ab d"', '"ab d"'), ('`http://x`', 'Uri("http://x")'),
    ('@x', 'Ref("x")'), ('@x "dis"', 'Ref("x", "dis")'), ('INF', 'float("inf")'), ('true', 'True'), ('false', 'False'), ('2020-02-29', 'datetime.date(2020, 2, 29)'), ('12:30:00', 'datetime.time(12, 30, 0)'),
]
OPS = ['==', '!=', '<', '<=', '>', '>=']

VALUES = '''
VALS = [ABSENT, MARKER, None, 5, 5.0, 6, -3, 5.5, 1, 0, "a  b", "a b", Quantity(5.0, "m"), Quantity(5.0, "s"), Quantity(7, "m"), "abc", "abd", "ab d", "5",
        Uri("http://x"), Ref("x"), Ref("y"), Ref("x", "dis"), True, False, datetime.date(2020, 2, 29), datetime.date(2021, 1, 1),
        datetime.time(12, 30, 0), datetime.time(1, 0, 0), NA, [1], {"a": 1}, Coordinate(1, 2)]
PVALS = VALS + [0.0, -0.0, "", [], {}, Quantity(0, "m"), Quantity(0), Uri(""), Coordinate(0, 0), REMOVE, XStr("hex", ""), Bin("")]
'''


def gen(tier):
    quick = tier == 'quick'
    H = []
    shapes = bool_shapes(3 if quick else 4)
    chunks = 12 if quick else 48
    per = (len(shapes) + chunks - 1) // chunks
    shape_src = 'SHAPES = %r\n' % (shapes,)
    for ci in range(chunks):
        lo, hi = ci * per, min(len(shapes), (ci + 1) * per)
        if lo >= hi:
            break
        src = '''def boolean_%d(s: int, pa: bool, pb: bool, pc: bool, pd: bool, qa: bool, qb: bool, limit: int) -> bool:
    """
    pre: %d <= s < %d and 0 <= limit <= 3
    post: _
    """
    text, ast = SHAPES[conc(s, %d, %d)]
    r1, r2 = {'id': 'r1'}, {'id': 'r2'}
    for k, p in (('ta', pa), ('tb', pb), ('tc', pc), ('td', pd)):
        if p:
            r1[k] = MARKER
    for k, p in (('ta', qa), ('tb', qb)):
        if p:
            r2[k] = 7
    return check_filter(text, ast, [r1, r2, {'id': 'r3', 'ta': MARKER, 'tb': MARKER, 'tc': MARKER, 'td': MARKER}], conc(limit, 0, 3))
''' % (ci, lo, hi, lo, hi - 1)
        H.append(xhair.Harness('boolean_%d' % ci, src, timeout=120 if quick else 900,
                               what='and/or/not/parenthesis structure over tag presence (shapes %d..%d), all row valuations, limit 0..3' % (lo, hi - 1)))
    # atoms: op x literal x row value
    for li, (ltxt, lpy) in enumerate(ATOM_LITS):
        src = '''def atom_%d(op: int, vi: int, sym: int, useint: bool) -> bool:
    """
    pre: 0 <= op < 6 and 0 <= vi < len(VALS)
    post: _
    """
    o = %r[conc(op, 0, 5)]
    text = 'tx ' + o + ' ' + %r
    lit = %s
    ast = ('cmp', o, ['tx'], lit)
    v = sym if useint else VALS[conc(vi, 0, len(VALS) - 1)]
    row = {'id': 'a'}
    if v is not ABSENT:
        row['tx'] = v
    return check_filter(text, ast, [row, {'id': 'b', 'tx': lit}, {'id': 'c'}])
''' % (li, OPS, ltxt, lpy)
        H.append(xhair.Harness('atom_%d' % li, src, timeout=120 if quick else 600,
                               what='six comparisons against the literal %s x row value of every kind (absent, marker, null, numbers incl. a symbolic int, quantities, strings, uri, refs, bools, date, time, NA, list, dict, coord)' % ltxt))
    # tag presence: `t`, `not t`, `r->t` for a tag whose value is of every kind, the falsy ones included
    src = '''def presence(vi: int, sym: int, useint: bool, form: int) -> bool:
    """
    pre: 0 <= vi < len(PVALS) and 0 <= form <= 4
    post: _
    """
    v = sym if useint else PVALS[conc(vi, 0, len(PVALS) - 1)]
    row = {'id': 'a', 'other': 1}
    if v is not ABSENT:
        row['tx'] = v
    rows = [row, {'id': 'b', 'tx': MARKER, 'r': Ref('a')}, {'id': 'c', 'r': Ref('c')}, {'id': 'd', 'tx': 0, 'r': Ref('nowhere')}]
    f = conc(form, 0, 4)
    if f == 0:
        return check_filter('tx', ('has', ['tx']), rows)
    if f == 1:
        return check_filter('not tx', ('not', ['tx']), rows)
    if f == 2:
        return check_filter('r->tx', ('has', ['r', 'tx']), rows)
    if f == 3:
        return check_filter('not r->tx', ('not', ['r', 'tx']), rows)
    return check_filter('tx and other or not tx and id', ('or', ('and', ('has', ['tx']), ('has', ['other'])), ('and', ('not', ['tx']), ('has', ['id']))), rows)
'''
    H.append(xhair.Harness('presence', src, timeout=120 if quick else 600,
                           what='tag presence (t, not t, r->t, not r->t, inside and/or) for a tag holding a value of every kind: absent, null, marker, zero, false, empty string/list/dict, a symbolic int, ...'))
    # two literals in one filter (literal tables, caches keyed by value, ...): every ordered pair of literal kinds
    lits_src = 'LITS = [%s]\n' % ', '.join('(%r, %s)' % (t, p) for t, p in ATOM_LITS)
    src = lits_src + '''def two_literals(i: int, j: int, conj: bool, vi: int, vj: int) -> bool:
    """
    pre: 0 <= i < len(LITS) and 0 <= j < len(LITS) and 0 <= vi <= 2 and 0 <= vj <= 2
    post: _
    """
    (t1, l1), (t2, l2) = LITS[conc(i, 0, len(LITS) - 1)], LITS[conc(j, 0, len(LITS) - 1)]
    text = 'tx == ' + t1 + (' and ' if conj else ' or ') + 'ty == ' + t2
    ast = ('and' if conj else 'or', ('cmp', '==', ['tx'], l1), ('cmp', '==', ['ty'], l2))
    cand = [l1, l2, 'zzz']
    rows = [{'id': 'a', 'tx': cand[conc(vi, 0, 2)], 'ty': cand[conc(vj, 0, 2)]}, {'id': 'b', 'tx': l1, 'ty': l2}, {'id': 'c', 'tx': l2, 'ty': l1}]
    return check_filter(text, ast, rows)
'''
    H.append(xhair.Harness('two_literals', src, timeout=200 if quick else 900,
                           what='two literals of every ordered pair of kinds in one filter (incl. true/1, false/0, 5/5m): each comparison uses its own literal'))
    # paths a->b and a->b->c
    src = '''def paths(ridk: int, target: int, t2: int, vk: int, depth: int) -> bool:
    """
    pre: 0 <= ridk <= 1 and 0 <= target <= 3 and 0 <= t2 <= 3 and 0 <= vk <= 3 and 1 <= depth <= 2
    post: _
    """
    ids = ['s1', 's2', 's3']
    tg = [Ref('s2'), Ref('s3'), Ref('nowhere'), 5][conc(target, 0, 3)]           # valid, valid, dangling, not a ref
    tg2 = [Ref('s3'), Ref('s1'), Ref('nowhere'), 'str'][conc(t2, 0, 3)]
    val = [ABSENT, 'Chicago', 'Paris', 7][conc(vk, 0, 3)]
    r1 = {'id': ids[0], 'siteRef': tg}
    r2 = {'id': ids[1], 'geoCity': 'Chicago', 'nextRef': tg2}
    r3 = {'id': ids[2]}
    if val is not ABSENT:
        r3['geoCity'] = val
    rows = [r1, r2, r3]
    if conc(depth, 1, 2) == 1:
        text, ast = 'siteRef->geoCity == "Chicago"', ('cmp', '==', ['siteRef', 'geoCity'], 'Chicago')
        ok = check_filter(text, ast, rows)
        return ok and check_filter('siteRef->geoCity', ('has', ['siteRef', 'geoCity']), rows) and check_filter('not siteRef->geoCity', ('not', ['siteRef', 'geoCity']), rows)
    text, ast = 'siteRef->nextRef->geoCity == "Chicago"', ('cmp', '==', ['siteRef', 'nextRef', 'geoCity'], 'Chicago')
    return check_filter(text, ast, rows) and check_filter('siteRef->nextRef->geoCity', ('has', ['siteRef', 'nextRef', 'geoCity']), rows)
'''
    H.append(xhair.Harness('paths', src, timeout=120 if quick else 600,
                           what='a->b and a->b->c through rows with string ids: valid, dangling and non-reference intermediates'))
    # several paths in one filter whose names would collide under a naive mangling (a->b / a_b / ab / a->b_c / a_b->c), and one tag used twice
    src = '''def path_names(f: int, p1: bool, p2: bool, p3: bool, v1: int, v2: int, v3: int) -> bool:
    """
    pre: 0 <= f < len(NAME_FILTERS) and 0 <= v1 <= 2 and 0 <= v2 <= 2 and 0 <= v3 <= 2
    post: _
    """
    text, ast = NAME_FILTERS[conc(f, 0, len(NAME_FILTERS) - 1)]
    r1 = {'id': 'e1', 'a': Ref('e2'), 'a_b': Ref('e3')}
    r2 = {'id': 'e2'}
    r3 = {'id': 'e3'}
    if p1:
        r2['b'] = conc(v1, 0, 2)            # a->b
        r2['b_c'] = conc(v3, 0, 2)          # a->b_c
    if p2:
        r1['ab'] = conc(v2, 0, 2)
        r1['x'] = conc(v2, 0, 2) + 2
    if p3:
        r3['c'] = conc(v3, 0, 2)            # a_b->c
        r1['aB'] = conc(v1, 0, 2)
    return check_filter(text, ast, [r1, r2, r3])
'''
    A_B, AB, A__B, ABC1, ABC2, ABc = ['a', 'b'], ['ab'], ['a_b'], ['a', 'b_c'], ['a_b', 'c'], ['aB']
    nf = []
    for (t1, q1), (t2, q2) in [(('a->b', A_B), ('a_b', A__B)), (('a_b', A__B), ('a->b', A_B)), (('a->b', A_B), ('ab', AB)), (('a->b_c', ABC1), ('a_b->c', ABC2)),
                               (('a_b->c', ABC2), ('a->b_c', ABC1)), (('a->b', A_B), ('aB', ABc)), (('ab', AB), ('aB', ABc))]:
        nf.append(('%s == 1 or %s == 2' % (t1, t2), ('or', ('cmp', '==', q1, 1), ('cmp', '==', q2, 2))))
        nf.append(('%s and not %s' % (t1, t2), ('and', ('has', q1), ('not', q2))))
        nf.append(('%s == 0 and %s == 0' % (t1, t2), ('and', ('cmp', '==', q1, 0), ('cmp', '==', q2, 0))))
    nf.append(('x > 2 and x < 4', ('and', ('cmp', '>', ['x'], 2), ('cmp', '<', ['x'], 4))))
    nf.append(('x == 2 or x == 4 or not x', ('or', ('or', ('cmp', '==', ['x'], 2), ('cmp', '==', ['x'], 4)), ('not', ['x']))))
    nf.append(('a->b == 1 and a->b != 2 and a->b', ('and', ('and', ('cmp', '==', A_B, 1), ('cmp', '!=', A_B, 2)), ('has', A_B))))
    H.append(xhair.Harness('path_names', 'NAME_FILTERS = %r\n' % (nf,) + src, timeout=150 if quick else 600,
                           what='several paths in one filter whose names differ only in ->, _ or case (a->b / a_b / ab / aB / a->b_c / a_b->c), and one tag compared twice: each occurrence reads its own path'))
    # the source grid got its version by auto-detection (a 3.0-only value in a row / in the metadata): the result carries that version whatever rows are selected
    src = '''def auto_version(how: int, sel: int, limit: int) -> bool:
    """
    pre: 0 <= how <= 4 and 0 <= sel <= 3 and 0 <= limit <= 2
    post: _
    """
    how = conc(how, 0, 4)
    g = Grid(columns=[('id', []), ('a', []), ('v', [])]) if how != 4 else Grid(version='2.0', columns=[('id', []), ('a', []), ('v', [])])
    g.metadata['dis'] = 'src'
    rows = [{'id': 'r1', 'a': MARKER}, {'id': 'r2', 'v': 5}, {'id': 'r3', 'a': MARKER, 'v': 7}]
    if how == 0:
        rows[1]['v'] = [1, 2]               # upgraded to 3.0 by a list in a row
    elif how == 1:
        rows[2]['x'] = NA
    elif how == 2:
        g.metadata['lst'] = {'k': 1}         # upgraded through the metadata
    for r in rows:
        g.append(r)
    want_ver = '2.0' if how >= 3 else '3.0'
    if str(g.version) != want_ver:
        return False
    text, keep = [('a', [0, 2]), ('not a', [1]), ('zz', []), ('id', [0, 1, 2])][conc(sel, 0, 3)]
    limit = conc(limit, 0, 2)
    out = g.filter(text, limit)
    want = [rows[i] for i in keep]
    if limit:
        want = want[:limit]
    got = list(out)
    if len(got) != len(want) or not all(x is y for x, y in zip(got, want)):
        return False
    if str(out.version) != want_ver or list(out.metadata.items()) != list(g.metadata.items()) or list(out.column.keys()) != list(g.column.keys()):
        return False
    import hszinc
    for mode in (hszinc.MODE_ZINC, hszinc.MODE_JSON):
        back = hszinc.parse(hszinc.dump(out, mode=mode), mode=mode)          # the result is a grid like any other: it dumps under its version
        if str(back.version) != want_ver or len(back) != len(want):
            return False
    return str(g.version) == want_ver and len(g) == 3
'''
    H.append(xhair.Harness('auto_version', src, timeout=100 if quick else 400,
                           what='filter result of a grid whose version was auto-detected (3.0-only value in a row or in the metadata, or none): same version, metadata, columns; result dumps and parses under that version'))
    # a->b after the grid has a history (deletions, replacements, insertions; id index built before or not)
    src = '''def paths_after_edits(edit: int, target: int, indexed: bool, form: int) -> bool:
    """
    pre: 0 <= edit <= 8 and 0 <= target <= 3 and 0 <= form <= 2
    post: _
    """
    tg = [Ref('s2'), Ref('s3'), Ref('s4'), Ref('d0')][conc(target, 0, 3)]
    rows = [{'id': 'd0', 'geoCity': 'Nowhere'}, {'id': 's1', 'siteRef': tg}, {'id': 's2', 'geoCity': 'Chicago'}, {'id': 's3', 'geoCity': 'Paris'},
            {'id': 's5', 'siteRef': Ref('s1')}]
    g = mkgrid(rows)
    if indexed:
        g.get('s1')
    e = conc(edit, 0, 8)
    if e == 1:
        del g[0]
    elif e == 2:
        del g[2:3]
    elif e == 3:
        g[2] = {'id': 's2', 'geoCity': 'Paris'}
    elif e == 4:
        g[2] = {'id': 's4', 'geoCity': 'Chicago'}
    elif e == 5:
        g.append({'id': 's4', 'geoCity': 'Chicago'})
    elif e == 6:
        g.pop(3)
    elif e == 7:
        del g[0:3]
    elif e == 8:
        g.insert(0, {'id': 's4', 'geoCity': 'Chicago'})
        del g[1]
    f = conc(form, 0, 2)
    if f == 0:
        return check_on_grid(g, 'siteRef->geoCity == "Chicago"', ('cmp', '==', ['siteRef', 'geoCity'], 'Chicago'))
    if f == 1:
        return check_on_grid(g, 'siteRef->geoCity', ('has', ['siteRef', 'geoCity']))
    return check_on_grid(g, 'not siteRef->geoCity', ('not', ['siteRef', 'geoCity']))
'''
    H.append(xhair.Harness('paths_after_edits', src, timeout=120 if quick else 600,
                           what='a->b on a grid with a history: row deleted (index, slice), replaced (same id / new id), appended, popped, inserted; id index built before the edit or not'))
    src = '''def framing(limit: int, n: int, empty: bool, ver: int) -> bool:
    """
    pre: 0 <= limit <= 4 and 0 <= n <= 3 and 0 <= ver <= 1
    post: _
    """
    rows = [{'id': 'r%d' % i, 'ta': MARKER} for i in range(conc(n, 0, 3))]
    g = mkgrid(rows, ['3.0', '2.0'][conc(ver, 0, 1)])
    lim = conc(limit, 0, 4)
    out = g.filter('   ' if empty else 'ta', lim)
    want = rows[:lim] if lim else rows
    return (len(out) == len(want) and all(a is b for a, b in zip(list(out), want)) and str(out.version) == str(g.version)
            and list(out.metadata.items()) == list(g.metadata.items()) and list(out.column.keys()) == list(g.column.keys())
            and len(g) == len(rows))
'''
    H.append(xhair.Harness('framing', src, timeout=60, what='empty filter / limit / carried version, metadata, columns / source untouched'))
    return shape_src, H, len(shapes)


def run(chk):
    quick = chk.tier == 'quick'
    shape_src, hs, nshapes = gen(chk.tier)
    if chk.only:
        hs = [h for h in hs if chk.only in h.name]
    chk.bounds = dict(boolean_shapes='%d filter texts: every and/or tree over has/not leaves with <= %d leaves in two spacing/parenthesis renderings, plus unparenthesised chains' % (nshapes, 3 if quick else 4),
                      rows='3 rows; presence of each tag symbolic (SymBool)', limit='0..3 symbolic',
                      atoms='%d literals x 6 operators x 29 row values (catalogue chosen by symbolic index) + an unbounded symbolic integer row value' % len(ATOM_LITS),
                      paths='a->b, a->b->c over 3 rows with string ids; targets valid/dangling/non-ref; leaf value absent/equal/other/other kind')
    chk.assumptions = ['filters are compiled by the real parse_filter/_generate_filter_in_python/exec pipeline outside the symbolic run; the generated function and Grid.filter run on symbolic rows',
                       'reference semantics (r_eval): presence, not; == true for equal values of one kind, != true for a present value that is not equal, orderings only between comparable values of one kind (numbers: same unit); a->b through the row whose id string equals the reference name; and over or precedence, left associativity',
                       'row ids are plain strings (as in the repository\'s own tests)', 'literal text -> value (escapes in string literals) belongs to C12\'s text pipeline']
    chk.trusted = ['symx explorer', 'reference evaluator r_eval in the harness prelude', 'z3']
    for f in ('hszinc/grid_filter.py', 'hszinc/filter_ast.py', 'hszinc/grid.py'):
        chk.note_source(f)
    chk.functions.update(['hszinc.grid_filter.parse_filter', '_generate_filter_in_python', '_filter_function', '_get_path', 'generated _gen_hsfilter_N functions', 'Grid.filter'])
    symrun.run_harnesses(chk, PRELUDE + VALUES + shape_src, hs)
    return chk.finish(rule='one symx exploration per harness: filter shape / operator / literal / row value kinds are symbolic selectors, tag presence bits and one numeric row value are symbolic; '
                           'the rows returned by the real Grid.filter are compared (identity, order) with those selected by the reference evaluator', exhaustive=not chk.inconclusive)
