"""C10 - version gating: a 2.0 grid never carries 3.0-only data, in memory or on the wire; Grid, both writers
and both readers take the same decision for the same declared version (symx explorer on the real code)."""
from .. import common, xhair, symrun

PRELUDE = r'''
import copy, json
from hszinc.grid import Grid
from hszinc.metadata import MetadataObject
from hszinc.sortabledict import SortableDict
from hszinc.datatypes import NA, MARKER, REMOVE, XStr, Quantity, Ref, Uri
from hszinc.version import Version, VER_3_0, VER_2_0
import hszinc
import hszinc.zincdumper as ZD, hszinc.jsondumper as JD, hszinc.jsonparser as JP, hszinc.zincparser as ZP

def conc(x, lo, hi):
    for d in range(lo, hi + 1):
        if x == d:
            return d
    return lo

VERSIONS = [None, '2.0', '3.0', '2.5', '3.0.0', '1.0', '4.0', '2.0.0', '2.0a', '3']

def official_gate(vs):
    """independent statement of the gate: a declared version accepts 3.0-only data iff it is later than 2.0
    (every version later than 2.0 is read and written with the 3.0 rules, every other one with the 2.0 rules)"""
    nums = []
    i = 0
    cur = ''
    rest = ''
    for j, ch in enumerate(vs):
        if ch.isdigit() or ch == '.':
            continue
        rest = vs[j:]
        vs = vs[:j]
        break
    nums = [int(p or 0) for p in vs.split('.')]
    while len(nums) > 1 and nums[-1] == 0:
        nums.pop()
    if nums != [2]:
        return nums > [2]
    return rest != ''

import collections

class _SubList(list):
    pass

class _SubXStr(XStr):
    pass

class _SubGrid(Grid):
    pass

def _sub_grid():
    g = _SubGrid(version='3.0', columns=[('k', [])])
    g.append({'k': 1})
    return g

def inner_grid():
    g = Grid(version='3.0', columns=[('k', [])])
    g.append({'k': 1})
    return g

def kinds():
    # (name, value, is 3.0-only)
    return [('na', NA, True), ('list', [1, 'a'], True), ('dict', {'a': 1}, True), ('grid', inner_grid(), True), ('xstr', XStr('Span', 'today'), True),
            ('empty_list', [], True), ('str', 'x', False), ('num', 5.5, False), ('marker', MARKER, False), ('remove', REMOVE, False), ('ref', Ref('a'), False), ('null', None, False),
            # instances of subclasses are values of the same Haystack kind
            ('ordered_dict', collections.OrderedDict([('a', 1)]), True), ('default_dict', collections.defaultdict(int, a=1), True), ('list_subclass', _SubList([1, 'a']), True),
            ('grid_subclass', _sub_grid(), True), ('xstr_subclass', _SubXStr('Span', 'today'), True)]
NKINDS = 17

def mk(vi):
    v = VERSIONS[vi]
    g = Grid(version=v, columns=[('a', [('u', 'm')]), ('b', [])]) if v is not None else Grid(columns=[('a', [('u', 'm')]), ('b', [])])
    g.metadata['dis'] = 's'
    g.append({'a': 1, 'b': 'x'})
    return g

def holds_30_data(g):
    def is30(v):
        return v is NA or isinstance(v, (list, dict, SortableDict, Grid, XStr))
    for v in g.metadata.values():
        if is30(v):
            return True
    for c in g.column.keys():
        m = g.column[c]
        if m is not None and hasattr(m, 'values'):
            for v in m.values():
                if is30(v):
                    return True
    for r in g:
        for v in r.values():
            if is30(v):
                return True
    return False

def snapshot(g):
    return (str(g.version), list(g.metadata.items()), [(c, list(g.column[c].items()) if hasattr(g.column[c], 'items') else g.column[c]) for c in g.column.keys()],
            [dict(r) for r in g])

def outcome(f):
    try:
        return ('ok', f())
    except Exception as e:
        return ('raises', type(e).__name__)

ENTRY = ['metadata[k]=', 'metadata.append', 'metadata.extend', 'metadata overwrite', 'column meta store', 'column meta overwrite', 'column[name]={...}',
         'append', 'insert', 'extend', 'setitem', 'iadd', 'ctor metadata', 'ctor columns', 'ctor columns dict']
NENTRY = len(ENTRY)

def apply_entry(g, e, val, vi):
    """store `val` through entry path e; returns the grid that now should hold it"""
    if e == 0:
        g.metadata['p'] = val
    elif e == 1:
        g.metadata.append('p', val)
    elif e == 2:
        g.metadata.extend([('q', 1), ('p', val)])
    elif e == 3:
        g.metadata['dis'] = val                      # overwrite of an existing tag
    elif e == 4:
        g.column['a']['p'] = val
    elif e == 5:
        g.column['a']['u'] = val
    elif e == 6:
        g.column['c'] = {'p': val}
    elif e == 7:
        g.append({'a': val})
    elif e == 8:
        g.insert(0, {'b': val, 'a': 2})
    elif e == 9:
        g.extend([{'a': 3}, {'b': val}])
    elif e == 10:
        g[0] = {'a': val}
    elif e == 11:
        g += [{'a': val}]
    else:
        v = VERSIONS[vi]
        kw = dict(version=v) if v is not None else {}
        if e == 12:
            return Grid(metadata={'p': val}, columns=[('a', [])], **kw)
        if e == 13:
            return Grid(columns=[('a', [('p', val)])], **kw)
        return Grid(columns={'a': {'p': val}}, **kw)
    return g

def gate_step(vi, ki, e):
    """one store from a fresh small grid"""
    name, val, only30 = kinds()[ki]
    g = mk(vi)
    before = snapshot(g)
    v = VERSIONS[vi]
    r = outcome(lambda: apply_entry(g, e, val, vi))
    if not only30:
        # ordinary data: accepted, version untouched
        if r[0] != 'ok':
            return False
        return str(r[1].version) == (v if v is not None else '2.0')
    if v is None:
        # no explicit version: the grid reports >= 3.0 as soon as the value is stored
        return r[0] == 'ok' and official_gate(str(r[1].version)) and holds_30_data(r[1])
    if official_gate(v):
        return r[0] == 'ok' and str(r[1].version) == v and holds_30_data(r[1])
    # explicit pre-3.0 version: refused with ValueError, nothing stored
    if r != ('raises', 'ValueError'):
        return False
    if e in (2, 9):
        return not holds_30_data(g) and str(g.version) == v        # multi-item calls may have applied the items before the refused one
    return e >= 12 or (snapshot(g) == before and not holds_30_data(g))
'''

AGREE = r'''
def five_decisions(vs, ki):
    """accept (True) / refuse (False) of: Grid, ZINC writer, JSON writer, ZINC reader, JSON reader for declared version vs"""
    name, val, only30 = kinds()[ki]
    g = Grid(version=vs, columns=[('a', [])])
    grid_ok = outcome(lambda: g.append({'a': val}))[0] == 'ok'
    ver = Version(vs)
    zw = outcome(lambda: ZD.dump_scalar(val, version=ver))
    jw = outcome(lambda: JD.dump_scalar(val, version=ver))
    if zw[0] == 'raises' and zw[1] != 'ValueError':
        return None
    if jw[0] == 'raises' and jw[1] != 'ValueError':
        return None
    # wire forms of the value under the 3.0 rules, put into documents that declare version vs
    ztxt = ZD.dump_scalar(val, version=VER_3_0)
    zdoc = 'ver:"%s"\na\n%s\n' % (vs, ztxt)
    zr = outcome(lambda: hszinc.parse(zdoc, mode=hszinc.MODE_ZINC))
    if zr[0] == 'raises' and zr[1] != 'ZincParseException':
        return None
    jtree = {'meta': {'ver': vs}, 'cols': [{'name': 'a'}], 'rows': [{'a': JD.dump_scalar(val, version=VER_3_0)}]}
    jr = outcome(lambda: hszinc.parse(copy.deepcopy(jtree), mode=hszinc.MODE_JSON))
    if jr[0] == 'raises' and jr[1] != 'ValueError':
        return None
    def carries(res):
        if res[0] != 'ok':
            return False
        cell = res[1][0].get('a')
        return type(cell) is type(val) or (val is NA and cell is NA)
    return (grid_ok, zw[0] == 'ok', jw[0] == 'ok', carries(zr), carries(jr))

def vtext(l, a, b, c, sfx):
    s = '.'.join(str(x) for x in (a, b, c)[:l])
    return s + ('a' if sfx else '')
'''

H = []


def add(name, sig, pre, body, what, timeout=120):
    src = 'def %s(%s) -> bool:\n    """\n    pre: %s\n    post: _\n    """\n%s\n' % (
        name, sig, pre, '\n'.join('    ' + l for l in body.strip('\n').split('\n')))
    H.append(xhair.Harness(name, src, timeout=timeout, what=what))


for _e in range(15):
    add('gate_entry_%d' % _e, 'vi: int, ki: int', '0 <= vi < len(VERSIONS) and 0 <= ki < NKINDS',
        'return gate_step(conc(vi, 0, len(VERSIONS) - 1), conc(ki, 0, NKINDS - 1), %d)' % _e,
        'one store through entry path %d x declared version (none, 2.0, 3.0, 2.5, 3.0.0, 1.0, 4.0, 2.0.0, 2.0a, 3) x value kind: upgrade, accept or refuse-and-leave-unchanged' % _e)

add('two_steps', 'vi: int, k1: int, k2: int, e1: int, e2: int', '0 <= vi <= 3 and 0 <= k1 <= 3 and 0 <= k2 <= 3 and 0 <= e1 <= 11 and 0 <= e2 <= 11', '''
vi = conc(vi, 0, 3); k1 = (0, 1, 4, 6)[conc(k1, 0, 3)]; k2 = (0, 1, 4, 6)[conc(k2, 0, 3)]; e1 = conc(e1, 0, 11); e2 = conc(e2, 0, 11)
g = mk(vi)
v = VERSIONS[vi]
for (k, e) in ((k1, e1), (k2, e2)):
    name, val, only30 = kinds()[k]
    before = snapshot(g)
    r = outcome(lambda: apply_entry(g, e, val, vi))
    if r[0] == 'raises':
        if r[1] != 'ValueError' or not only30 or v is None or official_gate(v) or (e not in (2, 9) and snapshot(g) != before):
            return False
    # invariant after every step: a grid that holds 3.0-only data reports a version with the 3.0 rules
    if holds_30_data(g) and not official_gate(str(g.version)):
        return False
    if v is not None and str(g.version) != v:
        return False
return True
''', 'two stores in sequence (12 entry paths squared): a refused store changes nothing, and a grid holding 3.0-only data always reports a 3.0-rules version', timeout=300)

add('writers_last_line', 'vi: int, ki: int, pos: int, js: bool', '1 <= vi < len(VERSIONS) and 0 <= ki < NKINDS and 0 <= pos <= 2', '''
vs = VERSIONS[conc(vi, 1, len(VERSIONS) - 1)]
name, val, only30 = kinds()[conc(ki, 0, NKINDS - 1)]
g = Grid(version=vs, columns=[('a', [('u', 'm')]), ('b', [])])
g.append({'a': 1})
pos = conc(pos, 0, 2)
# the value is put into the grid behind the grid's back (e.g. a metadata dict mutated after it was attached)
if pos == 0:
    g.metadata._values['p'] = val; g.metadata._order.append('p')
elif pos == 1:
    g.column['a']._values['p'] = val; g.column['a']._order.append('p')
else:
    g._row.append({'b': val})
r = outcome(lambda: hszinc.dump(g, mode=hszinc.MODE_JSON if js else hszinc.MODE_ZINC))
if only30 and not official_gate(vs):
    return r == ('raises', 'ValueError')
return r[0] == 'ok'
''', 'the writers refuse (ValueError) to emit 3.0-only data found in grid metadata, column metadata or rows of a grid with a pre-3.0 version, and write it under 3.0-rules versions')

add('derived_grids', 'how: int, ki: int, where: int, keep: bool', '0 <= how <= 4 and 0 <= ki <= 5 and 0 <= where <= 1', '''
name, val, only30 = kinds()[conc(ki, 0, 5)]
g = Grid(columns=[('id', []), ('a', [])])          # no explicit version: upgraded by the value stored below
g.append({'id': 'r1', 'a': 1})
g.append({'id': 'r2', 'a': val} if conc(where, 0, 1) == 0 else {'id': 'r2', 'a': [val]})
g.append({'id': 'r3'})
if not official_gate(str(g.version)):
    return False
how = conc(how, 0, 4)
if how == 0:
    d = g[1:] if keep else g[0:1]
elif how == 1:
    d = g[:] if keep else g[2:]
elif how == 2:
    d = g[::-1] if keep else g[0:3:2]
elif how == 3:
    d = g.filter('a') if keep else g.filter('not a')
else:
    d = g.filter('id', 2) if keep else g.filter('id', 1)
has = holds_30_data(d)
if has and not official_gate(str(d.version)):
    return False          # 3.0-only data in a grid labelled pre-3.0
for mode in (hszinc.MODE_ZINC, hszinc.MODE_JSON):
    r = outcome(lambda: hszinc.dump(d, mode=mode))
    if r[0] != 'ok':
        return False      # a grid derived from a dumpable grid is dumpable
    back = hszinc.parse(r[1], mode=mode)
    if str(back.version) != str(d.version) or len(back) != len(d):
        return False
    if holds_30_data(back) and not official_gate(str(back.version)):
        return False
return True
''', 'grids derived from an auto-upgraded grid (slices incl. full, reversed and stepped; filter results with and without limit): never 3.0-only data under a pre-3.0 label, in memory or dumped')

add('nested_gate', 'vi: int, ki: int, js: bool', '1 <= vi < len(VERSIONS) and 0 <= ki <= 5', '''
inner_ver = VERSIONS[conc(vi, 1, len(VERSIONS) - 1)]
name, val, only30 = kinds()[conc(ki, 0, 5)]
# a nested grid is gated by the version it declares itself, whatever the enclosing document says
if js:
    tree = {'meta': {'ver': '3.0'}, 'cols': [{'name': 'g'}], 'rows': [{'g': {'meta': {'ver': inner_ver}, 'cols': [{'name': 'a'}], 'rows': [{'a': JD.dump_scalar(val, version=VER_3_0)}]}}]}
    r = outcome(lambda: hszinc.parse(copy.deepcopy(tree), mode=hszinc.MODE_JSON))
else:
    doc = 'ver:"3.0"\\ng\\n<<ver:"%s"\\na\\n%s\\n>>\\n' % (inner_ver, ZD.dump_scalar(val, version=VER_3_0))
    r = outcome(lambda: hszinc.parse(doc, mode=hszinc.MODE_ZINC))
if official_gate(inner_ver):
    return r[0] == 'ok' and str(r[1][0]['g'].version) == inner_ver
return r[0] == 'raises' and r[1] in ('ValueError', 'ZincParseException')
''', 'a nested grid declaring a pre-3.0 version and holding 3.0-only data is rejected by both readers; accepted when it declares a 3.0-rules version')

add('five_way_named', 'vi: int, ki: int', '1 <= vi < len(VERSIONS) and 0 <= ki <= 5', '''
d = five_decisions(VERSIONS[conc(vi, 1, len(VERSIONS) - 1)], conc(ki, 0, 5))
if d is None:
    return False
want = official_gate(VERSIONS[vi])
return all(x == want for x in d)
''', 'Grid, ZINC writer, JSON writer, ZINC reader and JSON reader take the same accept/refuse decision (named versions x 3.0-only kinds)')

add('five_way_symbolic', 'l: int, a: int, b: int, c: int, sfx: bool, ki: int', '1 <= l <= 3 and 0 <= a <= 4 and 0 <= b <= 3 and 0 <= c <= 2 and 0 <= ki <= 5', '''
vs = vtext(conc(l, 1, 3), conc(a, 0, 4), conc(b, 0, 3), conc(c, 0, 2), bool(sfx))
d = five_decisions(vs, conc(ki, 0, 5))
if d is None:
    return False
want = official_gate(vs)
return all(x == want for x in d)
''', 'same agreement for every version text a[.b[.c]][a] with a<=4, b<=3, c<=2', timeout=300)


def run(chk):
    quick = chk.tier == 'quick'
    chk.bounds = dict(versions='none, 2.0, 3.0, 2.5, 3.0.0, 1.0, 4.0, 2.0.0, 2.0a, 3; and every a[.b[.c]] with a<=4, b<=3, c<=2 with/without suffix "a" (five-way agreement)',
                      value_kinds='NA, list, empty list, dict, nested grid, XStr, and instances of subclasses: OrderedDict, defaultdict, a list subclass, a Grid subclass, an XStr subclass (3.0-only); str, number, marker, remove, ref, null',
                      entry_paths='15: metadata store / append / extend / overwrite, column-metadata store / overwrite, column[name]={...}, append, insert, extend, setitem, +=, constructor metadata / columns / columns dict',
                      history='one store from a fresh grid; all pairs of stores over 12 entry paths; grids derived (slice, filter) from an auto-upgraded grid')
    chk.assumptions = ['gate = "the declared version is later than 2.0" (every version later than 2.0 is handled with the 3.0 rules: Version.nearest), written independently in the harness',
                       'entry paths, kinds and versions are chosen by symbolic selectors; values are concrete objects',
                       'reader acceptance is observed on a one-cell document declaring the version and holding the 3.0 wire form of the value']
    chk.trusted = ['symx explorer', 'z3']
    for f in ('hszinc/grid.py', 'hszinc/metadata.py', 'hszinc/sortabledict.py', 'hszinc/zincdumper.py', 'hszinc/jsondumper.py', 'hszinc/jsonparser.py', 'hszinc/zincparser.py', 'hszinc/version.py'):
        chk.note_source(f)
    chk.functions.update(['Grid.__init__', 'Grid._detect_or_validate', 'Grid._assert_version', 'SortableDict.add_item', 'MetadataObject.append/extend',
                          'zincdumper.dump_scalar', 'jsondumper.dump_scalar/dump_list/dump_dict', 'jsonparser.parse_embedded_scalar', 'zincparser.hs_scalar[v]/hs_grid[v]', 'Version.nearest'])
    hs = [x for x in H if not chk.only or chk.only in x.name]
    if not quick:
        for x in hs:
            x.timeout *= 5
    symrun.run_harnesses(chk, PRELUDE + AGREE, hs)
    return chk.finish(rule='one symx exploration per entry path / agreement family; version, value kind and entry path are symbolic selectors (version components symbolic ints for the '
                           'five-way agreement); the real Grid, writers and readers run and their decisions are compared with the independent gate', exhaustive=not chk.inconclusive)
