"""Shared harness family for C14 (Grid is a list of row dicts) and C15 (lookup by id):
one operation from an arbitrary small grid, in lock-step with a Python list (E1, CrossHair)."""
from .. import common, xhair, symrun

PRELUDE = r'''
from hszinc.grid import Grid
from hszinc.datatypes import Ref, MARKER
from hszinc.version import Version
from hszinc.sortabledict import SortableDict
from hszinc.metadata import MetadataObject

OBS = '@OBS@'          # 'list' (C14) or 'id' (C15)
MAXN = 3          # largest pre-state any harness builds
IDXN = @MAXN@      # index arguments range over -(IDXN+1)..(IDXN+1) (pop / del g[i]: -(MAXN+1)..(MAXN+1))

def conc(x, lo, hi):
    for d in range(lo, hi + 1):
        if x == d:
            return d
    return lo

# row kinds: 0 no id; 1 id 'x'; 2 id 1 (int); 3 id Ref('x'); 4 id 0 (a falsy id); 5 id '1' (same string form as the int 1); 6 id '' (falsy)
NKIND = @NKIND@
def mkrow(kind, a):
    kind = conc(kind, 0, NKIND - 1)
    if kind == 0:
        return {'a': a}
    if kind == 1:
        return {'id': 'x', 'a': a}
    if kind == 2:
        return {'id': 1, 'a': a}
    if kind == 3:
        return {'id': Ref('x'), 'a': a}
    if kind == 4:
        return {'id': 0, 'a': a}
    if kind == 5:
        return {'id': '1', 'a': a}
    return {'id': '', 'a': a}

LOOKUP_KEYS = ['x', '1', '@x', 'zz', Ref('x'), Ref('zz'), '0', '']

def valid_state(n, r0, r1, r2):
    if not (0 <= n <= MAXN):
        return False
    rs = (r0, r1, r2)
    for i in range(3):
        if i < n:
            if not (0 <= rs[i] < NKIND):
                return False
        elif rs[i] != 0:
            return False
    return True

def build(n, rs, vals, how, vcfg=0):
    """Grid with rows placed directly (any history of inserts leaves exactly this), and the id index in one of the
    states a history can leave it in: how=0 never built (fresh grid or a slice), 1 built by reindex()."""
    vcfg = conc(vcfg, 0, 4)
    cols = [('id', []), ('a', [('unit', 'x'), ('m2', MARKER)])]
    if vcfg == 0:
        g = Grid(version='3.0', columns=cols)
    elif vcfg == 1:
        g = Grid(version='2.0', columns=cols)
    else:
        g = Grid(columns=cols)            # version not given: 2.0 until a 3.0-only value is stored
    g.metadata['m'] = MARKER
    if vcfg == 3:
        g.metadata['lst'] = [1, 2]        # auto-upgrade to 3.0 through metadata
    if vcfg == 4:
        g.insert(0, {'a': [1, 2]})        # auto-upgrade to 3.0 through a row that is deleted again
        del g[0]
        g._index = None
    rows = []
    for i in range(3):
        if i < n:
            rows.append(mkrow(rs[i], vals[i]))
    g._row = list(rows)
    if how == 1:
        g.reindex()
    return g, list(rows)

def outcome(f):
    try:
        return ('ok', f())
    except Exception as e:
        return ('raises', type(e).__name__)

def same_rows(a, b):
    return len(a) == len(b) and all(x is y for x, y in zip(a, b))

def observe_list(g, m):
    """length, iteration, indexing incl. negative, slicing (slice is a grid with same version/metadata/columns), membership"""
    if len(g) != len(m) or not same_rows(list(g), m):
        return False
    for i in range(-MAXN - 2, MAXN + 3):
        r1 = outcome(lambda: g[i]); r2 = outcome(lambda: m[i])
        if r1[0] != r2[0] or (r1[0] == 'ok' and r1[1] is not r2[1]) or (r1[0] == 'raises' and r1[1] != r2[1]):
            return False
    for (a, b, st) in ((0, 1, None), (1, None, None), (None, -1, None), (-2, None, None), (None, None, 2), (None, None, -1), (2, 0, None)):
        s = g[a:b:st]
        if not isinstance(s, Grid) or not same_rows(list(s), m[a:b:st]):
            return False
        if str(s.version) != str(g.version) or list(s.metadata.items()) != list(g.metadata.items()):
            return False
        if [(k, list(v.items())) for k, v in s.column.items()] != [(k, list(v.items())) for k, v in g.column.items()]:
            return False
    for r in m:
        if r not in g:
            return False
    for probe in ({'a': -12345}, {'id': 'nope'}, {'a': 10}, {'id': 'x', 'a': 7}, {'id': 1, 'a': 11}):
        if (probe in g) != (probe in m):
            return False
    return True

def observe_ids(g, m):
    """g[key] / g.get(key): a current row whose id has that string form, else KeyError / default"""
    for key in LOOKUP_KEYS:
        want = [r for r in m if 'id' in r and str(r['id']) == str(key)]
        r1 = outcome(lambda: g[key])
        r2 = outcome(lambda: g.get(key, 'DEFAULT'))
        r3 = outcome(lambda: g.get(key))
        if want:
            if r1[0] != 'ok' or not any(r1[1] is w for w in want):
                return False
            if r2[0] != 'ok' or not any(r2[1] is w for w in want):
                return False
        else:
            if r1 != ('raises', 'KeyError'):
                return False
            if r2 != ('ok', 'DEFAULT') or r3 != ('ok', None):
                return False
    return True

def observe(g, m):
    return observe_list(g, m) if OBS == 'list' else observe_ids(g, m)

def header_of(g):
    return (str(g.version), list(g.metadata.items()), [(k, list(v.items())) for k, v in g.column.items()])

def unchanged(g, m0):
    return same_rows(g._row, m0)

def step(g, m, impl, model, m0, single=True):
    """run one operation on grid and list model; same exception class; refused single-row operation changes nothing"""
    h0 = header_of(g)
    r1 = outcome(impl)
    r2 = outcome(model)
    if r1[0] != r2[0]:
        return False
    h1 = header_of(g)
    if h1[1:] != h0[1:] or (h1[0] != h0[0] and h0[0] == '3.0' and 'lst' in g.metadata):
        return False          # a row operation leaves metadata and columns alone, and the version while 3.0-only data is still in the header
    if r1[0] == 'raises':
        if r1[1] != r2[1]:
            return False
        if single and not unchanged(g, m0):
            return False
        return observe(g, m0) if single else True
    if OBS == 'list' and r2[1] is not None and r1[1] is not r2[1] and r1[1] != r2[1]:
        return False
    return observe(g, m)
'''

SIG = 'n: int, r0: int, r1: int, r2: int, how: int'
PRE = 'valid_state(n, r0, r1, r2) and 0 <= how <= 1'
MK = 'g, m = build(n, (r0, r1, r2), (10, 11, 12), how); m0 = list(m)'


def gen(maxn, nkind):
    H = []

    def add(name, extra_sig, extra_pre, body, what, timeout=100, split=None, upto=None):
        if split:
            for tag, cond in split:
                add('%s_%s' % (name, tag), extra_sig, (extra_pre + ' and ' if extra_pre else '') + cond, body, what + ' [%s]' % cond, timeout)
            return
        for j in range(max(maxn, upto or 0) + 1):
            src = 'def %s_n%d(%s%s) -> bool:\n    """\n    pre: %s and n == %d%s\n    post: _\n    """\n    %s\n%s\n' % (
                name, j, SIG, (', ' + extra_sig) if extra_sig else '', PRE, j, (' and ' + extra_pre) if extra_pre else '',
                MK, '\n'.join('    ' + l for l in body.strip('\n').split('\n')))
            H.append(xhair.Harness('%s_n%d' % (name, j), src, timeout=timeout, what=what + ' [grid of %d rows]' % j))

    IDX = '-IDXN - 1 <= i <= IDXN + 1'
    IDX3 = '-MAXN - 1 <= i <= MAXN + 1'
    # version given / default / auto-upgraded through metadata or through a row that is gone again: deleting operations keep it
    VC = 'g, m = build(n, (r0, r1, r2), (10, 11, 12), how, vcfg); m0 = list(m); v0 = str(g.version)\n'
    add('observe_only', 'vcfg: int', '0 <= vcfg <= 4',
        'g, m = build(n, (r0, r1, r2), (10, 11, 12), how, vcfg); m0 = list(m)\n'
        'want = ["3.0", "2.0", "2.0", "3.0", "3.0"][vcfg]\n'
        'return str(g.version) == want and observe(g, m) and unchanged(g, m0)', 'observations on an arbitrary grid (incl. never-indexed slices; version explicit / default / auto-upgraded)')
    add('append', 'rk: int', '0 <= rk < NKIND',
        'row = mkrow(rk, 7)\nreturn step(g, m, lambda: g.append(row), lambda: m.append(row), m0)', 'append(row)')
    add('insert', 'i: int, rk: int', IDX + ' and 0 <= rk < NKIND',
        'row = mkrow(rk, 7)\nreturn step(g, m, lambda: g.insert(i, row), lambda: m.insert(i, row), m0)', 'insert(i, row)')
    add('setitem', 'i: int, rk: int', IDX + ' and 0 <= rk < NKIND',
        'row = mkrow(rk, 7)\nreturn step(g, m, lambda: g.__setitem__(i, row), lambda: m.__setitem__(i, row), m0)', 'g[i] = row')
    add('delitem', 'i: int', IDX3,
        'return step(g, m, lambda: g.__delitem__(i), lambda: m.__delitem__(i), m0)', 'del g[i]', upto=3)
    add('delslice', 'a: int, b: int, an: bool, bn: bool, st: int, vcfg: int', '-2 <= a <= IDXN and -2 <= b <= IDXN and 0 <= st <= 4 and 0 <= vcfg <= 4 and (vcfg == 0 or (an and bn))',
        VC + 'sl = slice(None if an else conc(a, -2, IDXN), None if bn else conc(b, -2, IDXN), [None, 1, 2, -1, -2][conc(st, 0, 4)])\n'
        'return step(g, m, lambda: g.__delitem__(sl), lambda: m.__delitem__(sl), m0, single=False)', 'del g[a:b:step] (bounds present or omitted, step None / 1 / 2 / -1 / -2)',
        split=[('s%d' % k, 'st == %d' % k) for k in range(5)])
    add('pop', 'i: int, noarg: bool, vcfg: int', IDX3 + ' and 0 <= vcfg <= 4 and (n <= 2 or vcfg == 0) and (not noarg or i == 0)',
        VC + 'if noarg:\n    return step(g, m, lambda: g.pop(), lambda: m.pop(), m0)\n'
        'return step(g, m, lambda: g.pop(i), lambda: m.pop(i), m0)', 'pop() / pop(i)', upto=3)
    add('remove', 'j: int, rk: int', '0 <= j <= IDXN and 0 <= rk < NKIND',
        'row = m[j] if j < len(m) else mkrow(rk, 99)\n'
        'def mrem():\n    for t in range(len(m)):\n        if m[t] is row or m[t] == row:\n            del m[t]\n            return None\n    raise ValueError()\n'
        'return step(g, m, lambda: g.remove(row), mrem, m0)', 'remove(row)')
    add('extend', 'k: int, rk: int, rk2: int, iadd: bool', '0 <= k <= 2 and 0 <= rk < NKIND and 0 <= rk2 < NKIND',
        'rows = [mkrow(rk, 7), mkrow(rk2, 8)][:conc(k, 0, 2)]\n'
        'if iadd:\n    def f():\n        gg = g\n        gg += rows\n        return None if gg is g else "rebound"\n'
        '    return step(g, m, f, lambda: m.extend(rows), m0, single=False)\n'
        'return step(g, m, lambda: g.extend(rows), lambda: m.extend(rows), m0, single=False)', 'extend(rows) / g += rows', split=[('ext', 'not iadd'), ('iadd', 'iadd')])
    add('reverse_clear', 'clear: bool, vcfg: int', '0 <= vcfg <= 4',
        VC + 'if clear:\n    return step(g, m, lambda: g.clear(), lambda: m.clear(), m0, single=False)\n'
        'return step(g, m, lambda: g.reverse(), lambda: m.reverse(), m0, single=False)', 'reverse() / clear()')
    add('nondict', 'op: int, i: int, bad: int', '0 <= op <= 3 and -1 <= i <= IDXN and 0 <= bad <= 5',
        'junk = [None, [("id", "x")], "row", SortableDict([("id", "x")]), MetadataObject([("id", "q")]), 7][conc(bad, 0, 5)]\n'
        'op = conc(op, 0, 3)\n'
        'f = [lambda: g.append(junk), lambda: g.insert(i, junk), lambda: g.__setitem__(0, junk), lambda: g.extend([junk])][op]\n'
        'r = outcome(f)\nreturn r == ("raises", "TypeError") and unchanged(g, m0) and observe(g, m0)', 'non-dict rows are refused with TypeError, grid unchanged')
    add('two_steps', 'rk: int, i: int, j: int, op2: int', '0 <= rk < NKIND and ' + IDX + ' and -IDXN - 1 <= j <= IDXN + 1 and 0 <= op2 <= 2',
        'row = mkrow(rk, 7)\n'
        'if not step(g, m, lambda: g.insert(i, row), lambda: m.insert(i, row), m0):\n    return False\n'
        'm1 = list(m)\nop2 = conc(op2, 0, 2)\n'
        'if op2 == 0:\n    return step(g, m, lambda: g.__delitem__(j), lambda: m.__delitem__(j), m1)\n'
        'if op2 == 1:\n    row2 = mkrow(0, 9)\n    return step(g, m, lambda: g.__setitem__(j, row2), lambda: m.__setitem__(j, row2), m1)\n'
        's = g[0:2]; ms = m[0:2]; ms0 = list(ms)\n'
        'return step(s, ms, lambda: s.__delitem__(0), lambda: ms.__delitem__(0), ms0) and observe(g, m)',
        'insert then delete / replace / operate on a slice', timeout=120,
        split=[('k%do%d' % (c, o), 'rk == %d and op2 == %d' % (c, o)) for c in range(nkind) for o in range(3)])
    add('derived', 'sk: int, op: int, rk: int, who: bool', '0 <= sk <= 4 and 0 <= op <= 3 and 0 <= rk < NKIND',
        'sk = conc(sk, 0, 4)\n'
        'if sk < 4:\n    sl = [slice(None), slice(0, 1), slice(1, None), slice(None, None, -1)][sk]\n    s = g[sl]; ms = m[sl]\n'
        'else:\n    s = g.filter("a"); ms = list(m)\n'
        'if not (observe(s, ms) and observe(g, m)):\n    return False\n'
        'tgt, tm, oth, om = (s, ms, g, m) if who else (g, m, s, ms)\n'
        'tm0 = list(tm); row = mkrow(rk, 7); op = conc(op, 0, 3)\n'
        'if op == 0:\n    ok = step(tgt, tm, lambda: tgt.append(row), lambda: tm.append(row), tm0)\n'
        'elif op == 1:\n    ok = step(tgt, tm, lambda: tgt.__delitem__(0), lambda: tm.__delitem__(0), tm0)\n'
        'elif op == 2:\n    ok = step(tgt, tm, lambda: tgt.__setitem__(0, row), lambda: tm.__setitem__(0, row), tm0)\n'
        'else:\n    ok = step(tgt, tm, lambda: tgt.insert(0, row), lambda: tm.insert(0, row), tm0)\n'
        'return ok and observe(oth, om)',
        'a derived grid (slice / filter result) and its parent stay independent lists with their own id lookup', timeout=200,
        split=[('d%d' % k, 'sk == %d' % k) for k in range(5)])
    return H


def run_obs(chk, obs):
    quick = chk.tier == 'quick'
    maxn, nkind = (2, 5) if quick else (3, 7)
    chk.bounds = dict(rows_in_pre_state='0..%d (pop and del g[i]: 0..3 in every tier)' % maxn, row_kinds=['no id', "id 'x'", 'id 1 (int)', "id Ref('x')", 'id 0', "id '1'", "id ''"][:nkind],
                      indices='-(max+1)..(max+1)', index_state='never built (fresh grid / slice) or built',
                      history='one operation from an arbitrary state; two-step family (insert then delete/replace/slice-op); derived-grid family (slice or filter result, then mutate parent or derived grid, observe both)')
    chk.assumptions = ['pre-state: rows are placed directly in Grid._row and the id index is None or reindex()ed - the states reachable by histories of inserts/slices',
                       'row dicts are concrete objects chosen by symbolic selectors (which kind of id each row has); cell values are concrete and distinct',
                       'with duplicate id strings any current row with that id string is accepted as "the" row',
                       'reference model: a plain Python list receiving the same operations']
    chk.trusted = ['crosshair-tool 0.0.110', 'z3', 'Python list as reference model']
    chk.note_source('hszinc/grid.py')
    chk.functions.update(['Grid.__getitem__', 'Grid.get', 'Grid.__len__', 'Grid.__setitem__', 'Grid.__delitem__', 'Grid.insert',
                          'Grid.reindex', 'Grid.extend', 'MutableSequence mixins append/pop/remove/reverse/clear/__iadd__/__contains__/__iter__'])
    hs = [x for x in gen(maxn, nkind) if not chk.only or chk.only in x.name]
    if not quick:
        for x in hs:
            x.timeout *= 8
    pre = PRELUDE.replace('@OBS@', obs).replace('@NKIND@', str(nkind)).replace('@MAXN@', str(maxn))
    symrun.run_harnesses(chk, pre, hs)
    return chk.finish(rule='one symx exploration per (operation, pre-state size): native execution of the real Grid code, every branch on a symbolic value decided by z3, exhaustive work list; pre-state rows, index state and all arguments symbolic; '
                           'grid and list model run in lock step and are compared through the public observations; non-trivial = non-vacuous '
                           'harness explored without counterexample', exhaustive=not chk.inconclusive)
