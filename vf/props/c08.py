"""C08 - no string payload can alter grid structure (E2 symx: instrumented real writer and reader,
symbolic code points, z3)."""
from .. import common, textprops

KINDS = ['str', 'uri', 'refdis', 'xstr']
POS30 = ['cell', 'gridmeta', 'colmeta', 'list', 'dict', 'nested']
POS20 = ['cell', 'gridmeta', 'colmeta']
META = '\\"$`uU04Afn, :#'       # printable ASCII only: two feasible escape classes per character


def matrix(tier):
    jobs = []
    nmax = 2 if tier == 'quick' else 3
    for fmt in ('zinc', 'json'):
        for kind in KINDS:
            for pos in POS30:
                for n in range(0, nmax + 1):
                    if fmt == 'json' and n > 2 and pos not in ('cell', 'nested'):
                        continue
                    jobs.append(dict(fmt=fmt, kind=kind, position=pos, version='3.0', N=n, timeout=200 if tier == 'quick' else 1500))
            if kind != 'xstr':
                for pos in POS20:
                    for n in (1, min(nmax, 2)):
                        jobs.append(dict(fmt=fmt, kind=kind, position=pos, version='2.0', N=n, timeout=200 if tier == 'quick' else 1500))
        # longer payloads over the metacharacter alphabet (2 feasible paths per character instead of ~10)
        for kind in KINDS:
            for n in ((4, 5, 6) if tier == 'quick' else (4, 5, 6, 7, 8)):
                if fmt == 'json' and n != 6:
                    continue
                jobs.append(dict(fmt=fmt, kind=kind, position='cell' if n % 2 == 0 else 'nested', version='3.0', N=n, alphabet=META,
                                 timeout=300 if tier == 'quick' else 1500))
        # two symbolic payloads in adjacent cells (cross-cell interaction), one code point each (thorough: 2+1 over the metacharacters)
        for k1, k2 in (('str', 'str'), ('str', 'uri'), ('uri', 'str'), ('refdis', 'str'), ('xstr', 'refdis')):
            jobs.append(dict(fmt=fmt, kind=k1, kind2=k2, position='cell', version='3.0', N=1, N2=1, timeout=300 if tier == 'quick' else 1500))
            if tier != 'quick':
                jobs.append(dict(fmt=fmt, kind=k1, kind2=k2, position='cell', version='3.0', N=2, N2=2, alphabet=META, timeout=1500))
        jobs.append(dict(fmt=fmt, kind='str', position='cell', version='3.0', N=min(nmax, 2), multi=True, timeout=300 if tier == 'quick' else 1500))
        jobs.append(dict(fmt=fmt, kind='uri', position='cell', version='3.0', N=1, multi=True, timeout=300))
        # concrete: the same text carried by two different kinds in neighbouring cells, both orders
        jobs.append(dict(fmt=fmt, kind='catalog', extra='pairs', positions=['cell'], version='3.0', N=0, timeout=300))
    return jobs


def run(chk):
    jobs = matrix(chk.tier)
    if chk.only:
        jobs = [j for j in jobs if chk.only in textprops.job_name(j)]
    nmax = max(j['N'] for j in jobs)
    chk.bounds = dict(payload_code_points='0..%d code points, each an unconstrained z3 Int in U+0000..U+10FFFF minus surrogates; plus 4..%d code points over the metacharacter alphabet %r' % (min(nmax, 3), nmax, META),
                      kinds=KINDS, positions_3_0=POS30, positions_2_0=POS20, formats=['zinc', 'json'],
                      grid='2 columns x 3 rows, concrete neighbours of other kinds (number, string with quote, marker, absent cell)',
                      documents='single grid; two-grid documents for str/uri cell; two symbolic payloads in adjacent cells (1+1 code points; thorough 2+2 over the metacharacter alphabet)')
    chk.assumptions = ['one symbolic payload per document (neighbours concrete), except in the two-payload jobs',
                       'JSON text layer (json.dumps/json.loads) is an inverse pair on str/list/dict/None/bool/float trees: the symbolic run hands the writer\'s JSON-ready tree to hszinc.parse; replay uses the real text',
                       'pyparsing semantics as implemented by the symbolic interpreter over the real grammar objects (differentially tested, see evidence of C09 translator validation)',
                       'Bin payloads and tag names are not free text (not listed by the property)']
    chk.trusted = ['symx explorer, SymStr shims, symbolic re matcher, symbolic pyparsing interpreter', 'z3']
    for f in ('hszinc/zincdumper.py', 'hszinc/zincparser.py', 'hszinc/jsondumper.py', 'hszinc/jsonparser.py', 'hszinc/parser.py', 'hszinc/dumper.py', 'hszinc/datatypes.py', 'hszinc/grid.py'):
        chk.note_source(f)
    textprops.run_jobs(chk, jobs)
    return chk.finish(rule='one exhaustive symbolic exploration per (format, payload kind, position, version, N, first-character class): '
                           'the real dump and parse code run on a payload of N symbolic code points; every feasible path ends in a z3 query '
                           '"exists payload on this path with different shape / neighbour / payload"; non-trivial = completed paths with a symbolic decision',
                      exhaustive=not chk.inconclusive)
