"""C05 - the JSON reader decodes every well-formed Haystack-JSON grid correctly and never modifies the caller's object.
Symbolic single-position mutation of a corpus of encoded scalars (every type code and spelling) against the
independent reference decoder (E2 symx) + concrete structural variants x input forms."""
from .. import common, mutworker
from . import c09


def run(chk):
    quick = chk.tier == 'quick'
    names = list(mutworker.JSON_DOCS)
    jobs = []
    for i in range(0, len(names), 2):
        jobs.append(dict(prop='C05', docs=names[i:i + 2], scalar=True, json=True, timeout=120 if quick else 900, no_unicode_digits=quick))
    jobs.append(dict(prop='C05', forms=True, docs=['forms']))
    # fully symbolic encoded scalars: every character an unconstrained code point (all strings of that length)
    for n in (1, 2, 3, 4):
        for v in ('', 'v2'):
            jobs.append(dict(prop='C05', docs=['jshort%d%s' % (n, v)], scalar=True, json=True, ops=['all'], timeout=300))
    if not quick:
        codes = 'nsmzxrubdhtc-'
        rest = []
        nxt = 0
        for o in sorted(ord(ch) for ch in codes):
            if o > nxt:
                rest.append([nxt, o - 1])
            nxt = o + 1
        rest.append([nxt, 0x10ffff])
        for v in ('', 'v2'):
            for part in [[[ord(ch), ord(ch)]] for ch in codes] + [rest]:
                jobs.append(dict(prop='C05', docs=['jshort5' + v], scalar=True, json=True, ops=['all'], alphabet=part, timeout=1800))
        for name in names:
            jobs.append(dict(prop='C05', docs=[name], scalar=True, json=True, ops=['replace2'], timeout=1800))
    if chk.only:
        jobs = [j for j in jobs if chk.only in ','.join(j['docs'])]
    from ..spec import json_ref
    chk.bounds = dict(encoded_scalars=sorted('%s=%s' % (k, v[1]) for k, v in mutworker.JSON_DOCS.items()),
                      mutation='one symbolic code point replacing / inserted at every position of every encoded scalar; only paths on which the reference decoder accepts the text are claimed',
                      fully_symbolic='every string of 1..4 (quick) / 1..5 (thorough) code points as an encoded scalar, versions 2.0 and 3.0; thorough: two adjacent symbolic characters at every position of the corpus',
                      forms='7 structural grid variants (rows missing / null / empty, rows omitting columns, raw numbers and booleans, nested list/dict/grid, both Remove spellings, nested values in metadata) x 5 input forms (dict, str, bytes, list of dicts, JSON array text), concrete')
    chk.assumptions = ['reference decoder = my recollection of the Haystack JSON encoding; uncertain points are rejected by the reference and thus outside the claim: ' + '; '.join(json_ref.UNCERTAIN),
                       'symbolic part drives jsonparser.parse_embedded_scalar (what grid parsing calls per value); replay goes through hszinc.parse_scalar with real JSON text',
                       'date-times compared as instants; zone database semantics are C17']
    chk.trusted = ['symx engine', 'vf/spec/json_ref.py', 'vf/neutral.py', 'z3']
    for f in ('hszinc/jsonparser.py', 'hszinc/parser.py'):
        chk.note_source(f)
    c09.run_mut_jobs(chk, jobs)
    return chk.finish(rule='one exhaustive symbolic exploration per (encoded scalar, position, replace|insert); z3 query per path: "reference accepts and (hszinc raises or decodes '
                           'to a different value)"; plus concrete form runs (counted as states)', exhaustive=not chk.inconclusive)
