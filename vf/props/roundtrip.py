"""Shared job matrix for C01 (ZINC round trip) and C02 (JSON round trip)."""
from .. import common, textprops

TEXT_KINDS = ['str', 'uri', 'refdis', 'xstr']
ALPHA_KINDS = ['refname', 'refname_dis', 'unit', 'xstrtype', 'bin']
POS30 = ['cell', 'gridmeta', 'colmeta', 'list', 'dict', 'nested']
POS20 = ['cell', 'gridmeta', 'colmeta']
META = '\\"$`uU04Afn, :#'       # as in C08


def matrix(fmt, tier, kf_bin):
    quick = tier == 'quick'
    to = 200 if quick else 1500
    jobs = []
    for ver, poss in (('3.0', POS30), ('2.0', POS20)):
        # concrete boundary catalogue of every non-text kind at every position, single and two-grid documents
        cat = dict(fmt=fmt, kind='catalog', positions=poss, version=ver, N=0, timeout=to)
        if fmt == 'zinc' and ver == '3.0' and kf_bin:
            cat['skip_types'] = ['Bin']
        jobs.append(cat)
        jobs.append(dict(cat, positions=['cell'], multi=True))
        jobs.append(dict(fmt=fmt, kind='catalog', extra='zones', positions=['cell'], version=ver, N=0, timeout=to))
        jobs.append(dict(fmt=fmt, kind='catalog', extra='times', positions=['cell'] if ver == '3.0' else ['gridmeta'], version=ver, N=0, timeout=to))
        jobs.append(dict(fmt=fmt, kind='catalog', extra='pairs', positions=['cell'], version=ver, N=0, timeout=to))
        for kind in TEXT_KINDS + ALPHA_KINDS:
            if kind in ('xstr', 'xstrtype') and ver == '2.0':
                continue        # XStr is a 3.0 kind (C10)
            if kind == 'bin' and fmt == 'zinc' and ver == '3.0' and kf_bin:
                continue        # known finding bin-zinc-3.0
            for pos in poss:
                deep = pos in ('cell', 'nested')
                if kind in TEXT_KINDS:
                    ns = (0, 1) if quick else ((0, 1, 2, 3) if deep else (0, 1, 2))      # deeper N for text kinds is C08's job in the quick tier
                else:
                    ns = ((1, 2) if deep else (1,)) if quick else ((1, 2, 3) if deep else (1, 2))
                if kind == 'bin':
                    ns = (0,) + tuple(ns)
                for n in ns:
                    jobs.append(dict(fmt=fmt, kind=kind, position=pos, version=ver, N=n, timeout=to))
        jobs.append(dict(fmt=fmt, kind='str', position='cell', version=ver, N=1, multi=True, timeout=to))
        # six code points over the metacharacter alphabet (backslash, quotes, $, u, hex digits, n, ...): escape sequences that
        # only exist from 2-6 characters on (escaped backslash followed by u and four hex digits, ...)
        for kind in ('str', 'uri'):
            jobs.append(dict(fmt=fmt, kind=kind, position='cell' if ver == '3.0' else 'gridmeta', version=ver, N=6, alphabet=META, timeout=max(to, 300)))
    return jobs


def run_fmt(chk, fmt):
    kf_bin = fmt == 'zinc' and chk.kf.active('bin-zinc-3.0')
    jobs = matrix(fmt, chk.tier, kf_bin)
    if chk.only:
        jobs = [j for j in jobs if chk.only in textprops.job_name(j)]
    nmax = max([j['N'] for j in jobs if not j.get('alphabet')] or [0])
    chk.bounds = dict(symbolic_payload_code_points='<=%d per document (plus 6 over the metacharacter alphabet for str/uri); text kinds over all of Unicode minus surrogates; ref names / units / xstr type names / bin mime types over their Haystack alphabets' % nmax,
                      kinds_symbolic=TEXT_KINDS + ALPHA_KINDS, positions_3_0=POS30, positions_2_0=POS20,
                      catalogue='57 (2.0) / 71 (3.0) concrete boundary values of the non-text kinds (bool, singletons, numbers incl. -0.0, 5e-324, 1.797e308, 2**53, inf, nan; quantities; dates; times; date-times in 4 zones; coordinates; refs; nested lists/dicts/grids to depth 3) at every position',
                      documents='single grid and two-grid documents', versions=['2.0', '3.0'])
    chk.assumptions = ['numbers, dates, times, date-times and coordinates are NOT symbolic: they come from a concrete boundary catalogue (finite family of configurations); their text<->value conversions are CPython/pytz/iso8601 code',
                       'one symbolic payload per document; neighbours concrete',
                       'a Quantity without unit and a plain number are the same Haystack Number',
                       'zone names compared through hszinc.zoneinfo.timezone_name (the map is C17\'s subject)',
                       'JSON: the symbolic run hands the writer\'s JSON-ready tree to hszinc.parse (json.dumps/loads assumed an inverse pair); replay and the concrete catalogue use the real JSON text'] \
        + (['known finding bin-zinc-3.0 excluded: Bin values under ZINC 3.0'] if kf_bin else [])
    chk.trusted = ['symx explorer, SymStr shims, symbolic re matcher, symbolic pyparsing interpreter', 'z3', 'structural comparator same_grid()']
    for f in ('hszinc/zincdumper.py', 'hszinc/zincparser.py', 'hszinc/jsondumper.py', 'hszinc/jsonparser.py', 'hszinc/parser.py', 'hszinc/dumper.py', 'hszinc/datatypes.py', 'hszinc/grid.py', 'hszinc/zoneinfo.py'):
        chk.note_source(f)
    textprops.run_jobs(chk, jobs)
    return chk.finish(rule='one exhaustive symbolic exploration per (payload kind, position, version, N, first-character class) with the real dump and parse code; '
                           'every feasible path ends in the z3 query "exists payload on this path whose read-back grid differs in version, metadata, columns, rows, kind or content"; '
                           'plus concrete catalogue runs (counted in states, not in solver queries); non-trivial = completed paths with a symbolic decision or one catalogue entry',
                      exhaustive=not chk.inconclusive)
