"""C06 - the JSON writer emits well-formed Haystack JSON that denotes the grid: the real writer's output is decoded by
an independent reference decoder (vf/spec/json_ref.py) inside the same symbolic run."""
from .. import common, textprops
from . import roundtrip


def run(chk):
    jobs = [dict(j, **{'assert': 'jsonref'}) for j in roundtrip.matrix('json', chk.tier, False)]
    if chk.only:
        jobs = [j for j in jobs if chk.only in textprops.job_name(j)]
    nmax = max([j['N'] for j in jobs if not j.get('alphabet')] or [0])
    from ..spec import json_ref
    chk.bounds = dict(symbolic_payload_code_points='<=%d per document (plus 6 over the metacharacter alphabet for str/uri)' % nmax, kinds_symbolic=roundtrip.TEXT_KINDS + roundtrip.ALPHA_KINDS,
                      positions_3_0=roundtrip.POS30, positions_2_0=roundtrip.POS20, versions=['2.0', '3.0'],
                      catalogue='concrete boundary values of the non-text kinds at every position, all mapped zones, 400+ microsecond values',
                      documents='single grid object and JSON array of two grids')
    chk.assumptions = ['the reference decoder is my recollection of the Haystack JSON encoding; uncertain points: ' + '; '.join(json_ref.UNCERTAIN),
                       'symbolic run: the writer\'s JSON-ready tree is decoded directly (json.dumps is CPython\'s); the concrete catalogue runs and every replay parse the real JSON text with json.loads, which also checks that it is valid JSON',
                       'numbers compared to six decimals', 'one symbolic payload per document']
    chk.trusted = ['vf/spec/json_ref.py', 'vf/neutral.py', 'symx engine', 'z3']
    for f in ('hszinc/jsondumper.py', 'hszinc/dumper.py', 'hszinc/datatypes.py', 'hszinc/zoneinfo.py'):
        chk.note_source(f)
    textprops.run_jobs(chk, jobs)
    return chk.finish(rule='as C02, but the JSON tree written by the real writer is decoded by the independent reference decoder on the same symbolic strings; '
                           'z3 query per path: "exists payload for which the shape is wrong, the reference rejects, or recovers a different grid"', exhaustive=not chk.inconclusive)
