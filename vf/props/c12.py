"""C12 - filter literals are data, never code.  The text -> generated source path (real filter grammar through the
symbolic pyparsing interpreter, real parse actions, real source generation) runs with one symbolic character at
every position of a corpus of filters; the generated source must contain nothing but hszinc's own helpers, literal
references and constants.  Plus concrete canary filters evaluated under an audit hook (E2 symx + replay)."""
from .. import common, mutworker
from . import c09


def run(chk):
    quick = chk.tier == 'quick'
    names = list(mutworker.FILTER_DOCS)
    jobs = [dict(prop='C12', canary=True, docs=['canary'])]
    for i in range(0, len(names), 1 if not quick else 2):
        jobs.append(dict(prop='C12', docs=names[i:i + (1 if not quick else 2)], filter=True, timeout=200 if quick else 900, no_unicode_digits=quick,
                         stride=2 if quick else 1, phase=0, nparts=1, part=0))
    if chk.only:
        jobs = [j for j in jobs if chk.only in ','.join(j['docs'])]
    from .. import c12audit
    chk.bounds = dict(filters=sorted('%s=%s' % kv for kv in mutworker.FILTER_DOCS.items()),
                      mutation='one symbolic code point replacing / inserted at every second (quick) / every (thorough) position (string, URI, reference name and display, XStr type and payload, unit, zone, tag-name, operator and keyword positions)',
                      canary_filters=len(c12audit.CANARY_FILTERS))
    chk.assumptions = ['safety of the generated source is syntactic: a single def whose return expression uses only boolean operators, comparisons, hszinc\'s own helper names, the function parameters, constants, constant subscripts and lists of constants (vf/c12audit.source_problem)',
                       'the generated text is checked after concretising its symbolic characters: exhaustively for small domains (tag-name characters), on sampled representatives otherwise (counted)',
                       'generated function names _gen_hsfilter_N and the id counter are the only module state a filter may add (by design)',
                       'an invalid filter must raise pyparsing.ParseBaseException or ValueError']
    chk.trusted = ['symx engine', 'vf/c12audit.py', 'z3', 'sys.addaudithook']
    for f in ('hszinc/grid_filter.py', 'hszinc/filter_ast.py', 'hszinc/datatypes.py'):
        chk.note_source(f)
    c09.run_mut_jobs(chk, jobs)
    return chk.finish(rule='one exhaustive symbolic exploration per (filter, position, replace|insert): parse_filter and _generate_filter_in_python run on the symbolic text; '
                           'every path either rejects the text with a parse error or yields a source that passes the syntactic safety check; plus %d concrete canary filters under an audit hook' % len(c12audit.CANARY_FILTERS),
                      exhaustive=not chk.inconclusive)
