"""C02 - JSON round trip (see roundtrip.py)."""
from .roundtrip import run_fmt


def run(chk):
    return run_fmt(chk, 'json')
