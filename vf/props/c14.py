"""C14 - Grid behaves as a list of row dicts (see gridsteps.py)."""
from .gridsteps import run_obs


def run(chk):
    return run_obs(chk, 'list')
