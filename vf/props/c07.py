"""C07 - anything parsed can be re-dumped, transcoded and re-parsed unchanged; dumping is pure and parse-then-dump
is idempotent.  Parser-made grids come from the spelling corpus (ZINC and JSON), concretely and with one symbolic
character substituted at sampled positions (E2 symx)."""
from .. import common, mutworker
from . import c09


def run(chk):
    quick = chk.tier == 'quick'
    jobs = [dict(prop='C07', corpus=True, docs=['corpus'])]
    docs = dict(mutworker.GRID_DOCS, **mutworker.C07_DOCS)
    for name, text in docs.items():
        if name == 'verq':
            continue        # concrete corpus only: the version regex over a long symbolic suffix exceeds the matcher's alternative limit
        parts = max(1, len(text) // (16 if quick else 8))
        stride = 2 if quick else 1
        for ph in range(parts):
            jobs.append(dict(prop='C07', docs=[name], stride=parts * stride, phase=ph * stride, nparts=parts, part=ph, ops=['replace'],
                             timeout=150 if quick else 900, no_unicode_digits=True,
                             ver_alphabet=[[48, 57], [46, 46], [97, 98]]))
    if chk.only:
        jobs = [j for j in jobs if chk.only in ','.join(j['docs'])]
    chk.bounds = dict(documents=sorted(docs) + ['jbase', 'jnest', 'jfold', 'jv2'],
                      parser_made_values='fixed-offset date-times without zone name in different DST seasons and at a skipped local time, zone-named date-times, non-official versions 2.5 and 3.0.0, nested lists/dicts/grids, every scalar kind',
                      mutation='one symbolic code point replacing every second (quick) / every (thorough) character; only paths on which hszinc.parse accepts the text are claimed',
                      checks='dump twice identical; grid unchanged by dump; parse(dump(g, m), m) equals g for m in ZINC, JSON; ZINC->JSON->ZINC and JSON->ZINC->JSON; dump(parse(dump(g))) == dump(g) character for character')
    chk.assumptions = ['JSON floating payloads compared to six decimals', 'symbolic runs use the JSON-ready tree (json text layer assumed an inverse pair); the concrete corpus runs and replays use real JSON text',
                       'zone names compared through hszinc.zoneinfo.timezone_name', 'non-ASCII decimal digits excluded from the symbolic character', 'inside version texts the symbolic character is a digit, a dot, a or b']
    chk.trusted = ['symx engine', 'structural comparator same_grid()', 'z3']
    for f in ('hszinc/zincdumper.py', 'hszinc/jsondumper.py', 'hszinc/zincparser.py', 'hszinc/jsonparser.py', 'hszinc/zoneinfo.py', 'hszinc/version.py', 'hszinc/parser.py', 'hszinc/dumper.py'):
        chk.note_source(f)
    c09.run_mut_jobs(chk, jobs)
    return chk.finish(rule='concrete corpus runs + one exhaustive symbolic exploration per (document, position): the parsed grid is re-dumped in both formats, re-parsed, '
                           'transcoded and re-dumped; z3 query per path: "exists character for which any of these differs"', exhaustive=not chk.inconclusive)
