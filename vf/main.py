"""Driver: ./check <ID> [--tier quick|thorough] [--replay PATH]"""
import argparse
import importlib
import os
import sys
import traceback

from . import common


def main():
    ap = argparse.ArgumentParser()
    ap.add_argument('prop')
    ap.add_argument('--tier', default=os.environ.get('VERIF_TIER', 'quick'),
                    choices=['quick', 'thorough'])
    ap.add_argument('--replay')
    ap.add_argument('--only', default=None, help='substring filter on harness names (debugging)')
    a = ap.parse_args()
    if a.replay:
        violated, out = common.run_replay(a.replay)
        print(out)
        sys.exit(1 if violated else 0)
    prop = a.prop.upper()
    mod = importlib.import_module('vf.props.%s' % prop.lower())
    chk = common.Check(prop, a.tier)
    chk.only = a.only
    try:
        rc = mod.run(chk)
    except Exception:
        traceback.print_exc()
        chk.fault('check crashed')
        try:
            chk.finish('crashed', False)
        except Exception:
            pass
        sys.exit(common.EXIT_FAULT)
    sys.exit(rc)


if __name__ == '__main__':
    main()
