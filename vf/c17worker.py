"""C17 worker (plain hszinc; z3 for the table queries).
   python -m vf.c17worker '<job json>'  ->  C17-RESULT <json>

mode 'tables'     : z3 queries over the live name maps and pytz transition tables
mode 'transitions': for the given zones, every tabulated transition instant +- deltas x microseconds: the real writers and
                    readers round-trip the localised date-time in both formats (instant, offset, Haystack zone name)
mode 'fixed'      : fixed-offset tzinfo for whole-minute offsets at ordinary / skipped / ambiguous local times: the writer
                    names a zone with that offset at that instant or raises ValueError; round trip keeps instant and offset
"""
import contextlib
import datetime
import io
import json
import sys
import time
import traceback
import warnings

warnings.simplefilter('ignore')

EPOCH = datetime.datetime(1970, 1, 1)


def load():
    from . import common
    sys.path.insert(0, common.REPO)
    import logging
    logging.disable(logging.CRITICAL)
    with contextlib.redirect_stdout(io.StringIO()):
        import hszinc
    return hszinc


def zone_table(tz):
    tt = list(getattr(tz, '_utc_transition_times', []))
    ti = list(getattr(tz, '_transition_info', []))
    return tt, ti


def roundtrip_problem(hz, dt, want_name):
    """dump/parse dt in both formats: same instant, same UTC offset, same Haystack zone name"""
    Z = sys.modules['hszinc.zoneinfo']
    for mode in (hz.MODE_ZINC, hz.MODE_JSON):
        try:
            with contextlib.redirect_stdout(io.StringIO()):
                txt = hz.dump_scalar(dt, mode=mode)
                if mode == hz.MODE_JSON:
                    txt = json.dumps(txt)
                back = hz.parse_scalar(txt, mode=mode)
        except Exception as e:
            return '%s: %s raised %s: %s' % (mode, dt.isoformat(), type(e).__name__, str(e)[:80])
        if not isinstance(back, datetime.datetime) or back.tzinfo is None:
            return '%s: %s read back as %r' % (mode, dt.isoformat(), back)
        if back != dt:
            return '%s: instant changed: wrote %s (%s), read %s' % (mode, dt.isoformat(), txt, back.isoformat())
        if back.utcoffset() != dt.utcoffset():
            return '%s: UTC offset changed: wrote %s (%s), read %s' % (mode, dt.isoformat(), txt, back.isoformat())
        if want_name is not None:
            try:
                got = Z.timezone_name(back)
            except Exception as e:
                return '%s: zone of the value read back cannot be named: %s' % (mode, type(e).__name__)
            if got != want_name:
                return '%s: zone name changed from %s to %s for %s' % (mode, want_name, got, dt.isoformat())
            if (' ' + want_name) not in str(txt):
                return '%s: zone name %s missing in %r' % (mode, want_name, txt)
    return None


def run_tables(hz):
    import z3
    import pytz
    Z = sys.modules['hszinc.zoneinfo']
    tzmap, rmap = Z.get_tz_map(), Z.get_tz_rmap()
    problems = []
    queries = 0
    t_solver = 0.0
    # (a) the two maps are mutually inverse and one-to-one: names and zones as integers, maps as functions
    names = sorted(set(tzmap) | set(rmap.values()))
    olsons = sorted(set(tzmap.values()) | set(rmap))
    ni = {n: i for i, n in enumerate(names)}
    oi = {o: i for i, o in enumerate(olsons)}
    F = z3.Function('olson_of', z3.IntSort(), z3.IntSort())
    G = z3.Function('name_of', z3.IntSort(), z3.IntSort())
    s = z3.Solver()
    for n, o in tzmap.items():
        s.add(F(ni[n]) == oi[o])
    for o, n in rmap.items():
        s.add(G(oi[o]) == ni[n])
    x, y = z3.Ints('x y')
    dom_n = z3.Or(*[x == ni[n] for n in tzmap])
    dom_n_y = z3.Or(*[y == ni[n] for n in tzmap])
    dom_o = z3.Or(*[x == oi[o] for o in rmap])
    for label, q in (('name->zone is injective', z3.And(dom_n, dom_n_y, x != y, F(x) == F(y))),
                     ('zone->name inverts name->zone', z3.And(dom_n, G(F(x)) != x)),
                     ('name->zone inverts zone->name', z3.And(dom_o, F(G(x)) != x)),
                     ('every mapped zone has a reverse entry', z3.And(dom_n, z3.Not(z3.Or(*[F(x) == oi[o] for o in rmap]))))):
        t0 = time.time()
        r = s.check(q)
        t_solver += time.time() - t0
        queries += 1
        if str(r) != 'unsat':
            m = s.model() if str(r) == 'sat' else None
            problems.append('%s: %s %s' % (label, r, (names[m[x].as_long()] if m is not None and 0 <= m[x].as_long() < len(names) else '')))
    if set(tzmap) - set(Z.HAYSTACK_TIMEZONES_SET):
        problems.append('mapped names outside the Haystack list')
    # (b) every tabulated offset of every mapped zone is a whole number of minutes within +-24h, so that isoformat() writes
    #     +hh:mm, the only offset form the readers accept; one query per zone over its offsets
    for n, o in sorted(tzmap.items()):
        tz = pytz.timezone(o)
        tt, ti = zone_table(tz)
        offs = sorted(set(int(info[0].total_seconds()) for info in ti)) if ti else [int(tz.utcoffset(datetime.datetime(2020, 1, 1)).total_seconds())]
        k = z3.Int('k')
        off = z3.Int('off')
        sol = z3.Solver()
        sol.add(z3.Or(*[off == v for v in offs]))
        t0 = time.time()
        r = sol.check(z3.Or(off % 60 != 0, off >= 86400, off <= -86400))
        t_solver += time.time() - t0
        queries += 1
        if str(r) != 'unsat':
            # LMT offsets with seconds exist for the earliest period of many zones; report separately (isoformat writes +hh:mm:ss)
            bad = [v for v in offs if v % 60]
            problems.append(('lmt', n, bad[:3]))
    return dict(problems=problems, queries=queries, solver_s=round(t_solver, 3), zones=len(tzmap))


def run_transitions(hz, job):
    import pytz
    Z = sys.modules['hszinc.zoneinfo']
    tzmap = Z.get_tz_map()
    deltas = job.get('deltas', [-1800, -1, 0, 1, 1800])
    micros = job.get('micros', [0])
    fails = []
    n = 0
    for name in job['zones']:
        tz = pytz.timezone(tzmap[name])
        tt, ti = zone_table(tz)
        instants = [t for t in tt if t.year >= job.get('min_year', 1)] or [datetime.datetime(2020, 1, 1)]
        if not tt:
            instants = [datetime.datetime(2020, 1, 1), datetime.datetime(2020, 7, 1)]
        for t in instants:
            for d in deltas:
                for us in micros:
                    try:
                        u = (t + datetime.timedelta(seconds=d)).replace(microsecond=us)
                        dt = pytz.utc.localize(u).astimezone(tz)
                    except (OverflowError, ValueError):
                        continue
                    if dt.year < 2 or dt.year > 9998:
                        continue
                    off = dt.utcoffset().total_seconds()
                    if off % 60:
                        continue          # sub-minute LMT offsets cannot be written as +hh:mm (outside the claim, counted in 'tables')
                    n += 1
                    msg = roundtrip_problem(hz, dt, name)
                    if msg is not None and len(fails) < 20:
                        fails.append(dict(zone=name, utc=u.isoformat(), what=msg))
    return dict(n=n, fails=fails)


LOCAL_TIMES = [(2021, 7, 1, 12, 0), (2021, 1, 1, 12, 0), (2021, 3, 14, 2, 30), (2021, 11, 7, 1, 30), (2021, 3, 28, 2, 30), (2021, 10, 31, 2, 30),
               (2000, 4, 28, 0, 30), (2021, 10, 3, 2, 15), (2021, 4, 4, 2, 30), (1995, 6, 15, 23, 59)]


def run_fixed(hz, job):
    Z = sys.modules['hszinc.zoneinfo']
    fails = []
    n = 0
    named = 0
    for off_min in job['offsets']:
        tzinfo = datetime.timezone(datetime.timedelta(minutes=off_min))
        for lt in LOCAL_TIMES:
            dt = datetime.datetime(*lt, tzinfo=tzinfo)
            n += 1
            try:
                name = Z.timezone_name(dt)
            except ValueError:
                continue
            except Exception as e:
                fails.append(dict(offset_min=off_min, local=list(lt), what='timezone_name raised %s: %s' % (type(e).__name__, str(e)[:60])))
                continue
            named += 1
            try:
                z = Z.timezone(name)
                conv = dt.astimezone(z)
            except Exception as e:
                fails.append(dict(offset_min=off_min, local=list(lt), what='zone %r cannot be used: %s' % (name, type(e).__name__)))
                continue
            if conv.utcoffset() != dt.utcoffset():
                fails.append(dict(offset_min=off_min, local=list(lt), what='writer names zone %s whose offset at that instant is %s, not %s' % (name, conv.utcoffset(), dt.utcoffset())))
                continue
            msg = roundtrip_problem(hz, dt, None)
            if msg is not None:
                fails.append(dict(offset_min=off_min, local=list(lt), what=msg))
    return dict(n=n, named=named, fails=fails[:20])


FIRST_OPS = ['read_zinc', 'read_json', 'timezone_call', 'write_one', 'read_scalar_unknown_zone']


def run_order(hz, job):
    """A fresh process whose FIRST zone-related operation is `first` (a read, a name lookup, a write of one zone); afterwards a
    value of every mapped zone, built directly from the zone database, is written and read back: same instant, offset, zone name.
    zmap = {haystack name: zone-database name} as a process that never did anything else reports it."""
    import pytz
    first, zmap = job['first'], job['zmap']
    Z = sys.modules['hszinc.zoneinfo']
    with contextlib.redirect_stdout(io.StringIO()):
        try:
            if first == 'read_zinc':
                hz.parse('ver:"3.0"\nt\n2020-01-01T00:00:00+01:00 Paris\n', mode=hz.MODE_ZINC)
            elif first == 'read_json':
                hz.parse({'meta': {'ver': '3.0'}, 'cols': [{'name': 't'}], 'rows': [{'t': 't:2020-01-01T09:00:00+09:00 Tokyo'}]}, mode=hz.MODE_JSON)
            elif first == 'timezone_call':
                Z.timezone('Chicago')
            elif first == 'write_one':
                hz.dump_scalar(pytz.timezone('Europe/London').localize(datetime.datetime(2020, 6, 1, 12, 0)), mode=hz.MODE_ZINC)
            else:
                try:
                    hz.parse_scalar('2020-01-01T00:00:00Z Nowhere_Land', mode=hz.MODE_ZINC)
                except Exception:
                    pass
        except Exception as e:
            return dict(n=0, fails=[dict(first=first, zone='-', what='the first operation raised %s: %s' % (type(e).__name__, str(e)[:80]))])
    fails = []
    n = 0
    for name in sorted(zmap):
        tz = pytz.timezone(zmap[name])
        for naive in (datetime.datetime(2021, 7, 1, 12, 0, 0), datetime.datetime(2021, 1, 1, 0, 30, 0)):
            n += 1
            msg = roundtrip_problem(hz, tz.localize(naive), name)
            if msg is not None:
                fails.append(dict(first=first, zone=name, what='after %s as first zone operation: %s' % (first, msg)))
                break
    got = dict(Z.get_tz_map())
    if {k: str(v) for k, v in got.items()} != zmap and not fails:
        fails.append(dict(first=first, zone='-', what='after %s as first zone operation the zone map has %d entries instead of %d' % (first, len(got), len(zmap))))
    return dict(n=n, fails=fails[:10])


def replay_order(hz, first, zmap, zone):
    r = run_order(hz, dict(first=first, zmap=zmap))
    for f in r['fails']:
        if f['zone'] == zone:
            return f['what']
    return None


def replay_transition(hz, zone, utc_iso):
    import pytz
    Z = sys.modules['hszinc.zoneinfo']
    tz = pytz.timezone(Z.get_tz_map()[zone])
    u = datetime.datetime.fromisoformat(utc_iso)
    return roundtrip_problem(hz, pytz.utc.localize(u).astimezone(tz), zone)


def replay_fixed(hz, off_min, lt):
    r = run_fixed(hz, dict(offsets=[off_min]))
    for f in r['fails']:
        if f['local'] == list(lt):
            return 'offset %+d min, local %r: %s' % (off_min, lt, f['what'])
    return None


if __name__ == '__main__':
    job = json.loads(sys.argv[1])
    t0 = time.time()
    try:
        hz = load()
        if job['mode'] == 'tables':
            res = run_tables(hz)
        elif job['mode'] == 'transitions':
            res = run_transitions(hz, job)
        elif job['mode'] == 'order':
            res = run_order(hz, job)
        else:
            res = run_fixed(hz, job)
        res.update(job={k: v for k, v in job.items() if k not in ('zones', 'offsets', 'zmap')}, status='done', wall_s=round(time.time() - t0, 2))
    except BaseException:
        res = dict(job=job, status='fault', error=traceback.format_exc()[-1500:])
    sys.stdout.write('\nC17-RESULT ' + json.dumps(res, default=str) + '\n')
