"""Shared protocol of every check: bounds, verdict bookkeeping, replay,
known findings, evidence, exit codes (DESIGN.md section 4)."""
import hashlib
import json
import os
import shutil
import subprocess
import sys
import tempfile
import time

VERIF = os.path.dirname(os.path.dirname(os.path.abspath(__file__)))
REPO = os.environ.get('HSZINC_REPO', '/repo')
PLAIN_PY = '/venv/bin/python'
EVID_DIR = os.path.join(VERIF, 'evidence')
REPLAY_DIR = os.path.join(EVID_DIR, 'replay')
KF_FILE = os.path.join(VERIF, 'known_findings.json')
NCPU = int(os.environ.get('VERIF_JOBS', str(min(16, os.cpu_count() or 4))))

EXIT_OK, EXIT_VIOLATION, EXIT_FAULT = 0, 1, 2

REPLAY_PRELUDE = '''\
# Stand-alone replay: runs plain hszinc from $HSZINC_REPO (default /repo).
# exit 1 = the property is violated by this input, exit 0 = it is not.
import os, sys, io, warnings, contextlib
warnings.simplefilter('ignore')
sys.path.insert(0, os.environ.get('HSZINC_REPO', '/repo'))
_out = io.StringIO()
with contextlib.redirect_stdout(_out):
    import hszinc
def _quiet(fn, *a, **k):
    with contextlib.redirect_stdout(io.StringIO()):
        return fn(*a, **k)
def VIOLATED(msg):
    print('violated:', msg)
    sys.exit(1)
def HOLDS(msg=''):
    print('holds', msg)
    sys.exit(0)
'''


def sha256_file(path):
    h = hashlib.sha256()
    with open(path, 'rb') as f:
        h.update(f.read())
    return h.hexdigest()


def run_replay(path, repo=None, timeout=120):
    """Run a replay script on plain CPython against the repository.
    Returns (violated: bool|None, output).  None = script fault."""
    env = dict(os.environ)
    env['HSZINC_REPO'] = repo or REPO
    env.pop('PYTHONPATH', None)
    try:
        p = subprocess.run([PLAIN_PY, path], env=env, capture_output=True,
                           text=True, timeout=timeout)
    except subprocess.TimeoutExpired:
        return None, 'timeout'
    out = (p.stdout + p.stderr)[-2000:]
    if p.returncode == 1 and 'violated:' in p.stdout:
        return True, out
    if p.returncode == 0:
        return False, out
    return None, out


class KnownFindings:
    def __init__(self, prop):
        self.prop = prop
        self.entries = []
        self.fixed = []
        if os.path.exists(KF_FILE):
            data = json.load(open(KF_FILE))
            self.entries = [e for e in data.get('findings', [])
                            if e['property'] == prop]
            self.fixed = [e for e in data.get('fixed', [])
                          if e['property'] == prop]
        self._active = {}

    def active(self, key):
        """True iff finding `key` is listed for this property AND its witness
        still reproduces on the tree under test.  Only then may a harness
        exclude the finding's region."""
        if key in self._active:
            return self._active[key]
        res = False
        for e in self.entries:
            if e['key'] == key:
                path = os.path.join(VERIF, e['witness'])
                violated, _ = run_replay(path)
                res = bool(violated)
                e['_reproduces'] = res
        self._active[key] = res
        return res

    def keys(self):
        return [e['key'] for e in self.entries]

    def entry(self, key):
        for e in self.entries:
            if e['key'] == key:
                return e
        return None


class Check:
    """One run of one property's check."""

    def __init__(self, prop, tier, level='model_checking'):
        self.prop = prop
        self.tier = tier
        self.level = level
        self.seed = int(os.environ.get('VERIF_SEED', '0') or 0)
        self.t0 = time.time()
        self.kf = KnownFindings(prop)
        self.queries = []          # dicts: name, verdict, wall_s, ...
        self.samples = []
        self.assumptions = []
        self.bounds = {}
        self.functions = set()
        self.sources = {}
        self.trusted = []
        self.violations = []       # confirmed + unlisted
        self.known_hits = []       # confirmed + listed
        self.faults = []
        self.inconclusive = []
        self.extra = {}
        self.solver_s = 0.0
        self.n_solver_queries = 0
        self.n_paths = 0
        self.n_nontrivial = 0
        self.validated = 0
        self._nreplay = 0
        os.makedirs(REPLAY_DIR, exist_ok=True)

    # -- bookkeeping ------------------------------------------------------
    def note_source(self, relpath):
        p = os.path.join(REPO, relpath)
        if os.path.exists(p):
            self.sources[relpath] = sha256_file(p)[:16]

    def query(self, name, verdict, wall_s=0.0, **kw):
        d = dict(name=name, verdict=verdict, wall_s=round(wall_s, 3))
        d.update(kw)
        self.queries.append(d)
        if verdict in ('unknown', 'timeout', 'inconclusive'):
            self.inconclusive.append(name)
        return d

    def fault(self, msg):
        self.faults.append(msg)
        print('HARNESS-FAULT: property=%s %s' % (self.prop, msg))

    # -- violations -------------------------------------------------------
    def replay_path(self, tag):
        self._nreplay += 1
        safe = ''.join(ch if ch.isalnum() or ch in '-_' else '_' for ch in tag)[:60]
        return os.path.join(REPLAY_DIR, '%s-%s-%d.py' % (self.prop, safe, self._nreplay))

    def candidate(self, tag, script_body, what, kf_key=None, model=None):
        """A solver model turned into a replay script.  Runs it on the plain
        code; returns 'violation' | 'known' | 'spurious' | 'fault'."""
        path = self.replay_path(tag)
        with open(path, 'w') as f:
            f.write(REPLAY_PRELUDE)
            f.write(script_body)
        violated, out = run_replay(path)
        if violated is None:
            self.fault('replay script failed for %s: %s' % (tag, out[-300:]))
            return 'fault'
        if not violated:
            os.unlink(path)
            self.query('replay:' + tag, 'spurious', model=repr(model)[:200])
            return 'spurious'
        if kf_key is not None and self.kf.entry(kf_key) is not None:
            self.known_hits.append((kf_key, what))
            os.unlink(path)
            return 'known'
        self.violations.append(dict(tag=tag, what=what, replay=path,
                                    model=repr(model)[:300]))
        print('VIOLATION property=%s replay=%s' % (self.prop, path))
        print('  what: %s' % what)
        return 'violation'

    # -- finish -----------------------------------------------------------
    def finish(self, rule, exhaustive=False, explanation=None):
        wall = time.time() - self.t0
        # known findings: print one line per listed finding that still reproduces
        for e in self.kf.entries:
            if self.kf.active(e['key']):
                print('KNOWN-FINDING: property=%s %s' % (self.prop, e['what']))
        cov = dict(
            evaluations=int(self.n_solver_queries),
            distinct_nontrivial=int(self.n_nontrivial),
            rule=rule,
            samples=self.samples[:12] or ['<none>'],
            states=max(1, int(self.n_paths)),
            transitions=max(1, int(self.n_solver_queries)),
            traces_validated_against_impl=int(self.validated),
            exhaustive=bool(exhaustive),
            bounds=self.bounds,
            functions_encoded=sorted(self.functions),
            source_sha256=self.sources,
            queries=self.queries[:400],
            queries_total=len(self.queries),
            verdict_counts=self._verdict_counts(),
            solver_time_s=round(self.solver_s, 2),
            inconclusive=self.inconclusive[:50],
            known_findings_active=[k for k in self.kf.keys() if self.kf.active(k)],
            trusted_base=self.trusted,
        )
        if explanation:
            cov['explanation'] = explanation
        cov.update(self.extra)
        ev = dict(property_id=self.prop, tier=self.tier, seed=self.seed,
                  level=self.level, coverage=cov,
                  assumptions=self.assumptions, wall_s=round(wall, 2),
                  violations=len(self.violations))
        os.makedirs(EVID_DIR, exist_ok=True)
        tmp = os.path.join(EVID_DIR, '.%s.json.tmp' % self.prop)
        with open(tmp, 'w') as f:
            json.dump(ev, f, indent=1, default=str)
        os.replace(tmp, os.path.join(EVID_DIR, '%s.json' % self.prop))
        vc = self._verdict_counts()
        print('%s tier=%s wall=%.1fs queries=%d %s paths=%d solver=%.1fs violations=%d known=%d inconclusive=%d'
              % (self.prop, self.tier, wall, len(self.queries), vc, self.n_paths,
                 self.solver_s, len(self.violations),
                 len([k for k in self.kf.keys() if self.kf.active(k)]),
                 len(self.inconclusive)))
        if self.violations:
            return EXIT_VIOLATION
        if self.faults:
            return EXIT_FAULT
        return EXIT_OK

    def _verdict_counts(self):
        d = {}
        for q in self.queries:
            d[q['verdict']] = d.get(q['verdict'], 0) + 1
        return d


def scratch_dir(prefix='hszverif-'):
    return tempfile.mkdtemp(prefix=prefix)


def rm_rf(path):
    shutil.rmtree(path, ignore_errors=True)
