"""Deterministic scheduler for C13: two or three real threads each compile and evaluate a distinct filter through
the real hszinc code; a trace function stops every thread at each source line of the filter-compilation functions and
a controller decides which thread runs next.  The schedule (which thread takes each next step) is the unknown: in the
check it is a sequence of symbolic integers explored exhaustively by the symx explorer (preemption-bounded); in a
replay it is a fixed list.  Pure python (no solver needed for replay)."""
import contextlib
import io
import sys
import threading

TRACED_FUNCS = ('_filter_function', '__init__', 'get', 'filter_function', '__del__')
# with trace_eval: the evaluation helpers too, so that threads are switched in the middle of evaluating a row
EVAL_FUNCS = ('_get_path', '_compare', '_resolve_path')


class Scenario:
    def __init__(self, hz, nthreads=2, warm=0, small_cache=0, trace_eval=0):
        self.hz = hz
        self.trace_eval = trace_eval
        self.traced = TRACED_FUNCS + (EVAL_FUNCS if trace_eval else ())
        self.GF = sys.modules['hszinc.grid_filter']
        if small_cache:
            # lru_cache stub: same cache, smaller capacity, so that evictions (and the finaliser that removes the
            # generated function) happen while other threads are compiling
            import functools
            inner = getattr(self.GF._filter_function, '__wrapped__', self.GF._filter_function)
            self.GF._filter_function = functools.lru_cache(maxsize=small_cache)(inner)
        self.file = self.GF.__file__ if hasattr(self.GF, '__file__') else self.GF.__spec__.origin
        self.n = nthreads
        self.warm = warm
        self.tags = ['ta', 'tb', 'tc'][:nthreads]
        # distinct filters with a tag test and literals of their own
        self.filters = ['%s and val == %d and name != "n%d"' % (t, 10 + i, i + 5) for i, t in enumerate(self.tags)]
        if trace_eval:
            # the threads' filters share their paths (val, name) and differ in the literals: scratch state kept per path or per
            # entity by the evaluation helpers would be visible as a wrong row
            self.filters = ['val == %d and name != "n%d"' % (10 + i, i + 5) for i in range(nthreads)]

    def grid(self):
        g = self.hz.Grid(version='3.0', columns=[('id', []), ('val', []), ('name', [])] + [(t, []) for t in self.tags])
        for i, t in enumerate(self.tags):
            g.append({'id': 'r%d' % i, t: self.hz.MARKER, 'val': 10 + i, 'name': 'n%d' % i})
            g.append({'id': 'x%d' % i, t: self.hz.MARKER, 'val': 10 + i, 'name': 'n%d' % (i + 5)})
        if self.trace_eval:
            return g           # a small grid: every evaluation line is a scheduling point
        for i in range(len(self.tags)):
            g.append({'id': 'all%d' % i, 'ta': 1, 'tb': 1, 'tc': 1, 'val': 10 + i, 'name': 'zz'})
        return g

    def expected(self, i):
        if self.trace_eval:
            return ['r%d' % i]
        return ['r%d' % i, 'all%d' % i]

    def reset(self):
        GF = self.GF
        GF.print = lambda *a, **k: None          # the module's debug prints (logging stub)
        import gc
        GF._filter_function.cache_clear()
        gc.collect()
        for k in [k for k in vars(GF) if k.startswith('_gen_hsfilter_')]:
            try:
                del vars(GF)[k]
            except KeyError:
                pass
        if isinstance(getattr(GF, '_id_function', None), int):
            GF._id_function = 0
        if self.warm:
            with contextlib.redirect_stdout(io.StringIO()):
                for j in range(self.warm):
                    GF.filter_function('w%d' % j)

    def run(self, choose, max_preempt=2):
        """choose(n_runnable, step) -> index into the runnable list.  Returns (problem or None, schedule taken)."""
        self.reset()
        n = self.n
        go = [threading.Semaphore(0) for _ in range(n)]
        back = threading.Semaphore(0)
        state = dict(done=[False] * n, result=[None] * n, error=[None] * n, at=[None] * n)
        g = self.grid()
        fname = self.file

        def tracer_for(i):
            def local(frame, event, arg):
                if event == 'line':
                    state['at'][i] = (frame.f_code.co_name, frame.f_lineno)
                    back.release()
                    go[i].acquire()
                return local

            def glob(frame, event, arg):
                if event == 'call' and frame.f_code.co_filename == fname and frame.f_code.co_name in self.traced:
                    return local
                return None
            return glob

        def worker(i):
            go[i].acquire()
            sys.settrace(tracer_for(i))
            try:
                out = g.filter(self.filters[i])
                state['result'][i] = [r['id'] for r in out]
            except BaseException as e:       # noqa
                state['error'][i] = '%s: %s' % (type(e).__name__, str(e)[:100])
            finally:
                sys.settrace(None)
                state['done'][i] = True
                back.release()

        threads = [threading.Thread(target=worker, args=(i,), daemon=True) for i in range(n)]
        for t in threads:
            t.start()
        schedule = []
        current = None
        preempts = 0
        step = 0
        while not all(state['done']):
            runnable = [i for i in range(n) if not state['done'][i]]
            if current in runnable and preempts >= max_preempt:
                pick = current
            else:
                pick = runnable[choose(len(runnable), step)] if len(runnable) > 1 else runnable[0]
                if current in runnable and pick != current:
                    preempts += 1
            current = pick
            schedule.append(pick)
            go[pick].release()
            back.acquire()
            step += 1
            if step > 2000:
                return 'scheduler ran more than 2000 steps', schedule
        for t in threads:
            t.join(5)
        for i in range(n):
            if state['error'][i]:
                return 'thread %d (filter %r) raised %s' % (i, self.filters[i], state['error'][i]), schedule
            if state['result'][i] != self.expected(i):
                return 'thread %d (filter %r) got rows %r instead of %r' % (i, self.filters[i], state['result'][i], self.expected(i)), schedule
        # afterwards: cached filters keep working
        with contextlib.redirect_stdout(io.StringIO()):
            for i in range(n):
                try:
                    got = [r['id'] for r in g.filter(self.filters[i])]
                except Exception as e:
                    return 'after the run, filter %r raised %s: %s' % (self.filters[i], type(e).__name__, str(e)[:80]), schedule
                if got != self.expected(i):
                    return 'after the run, filter %r gives %r instead of %r' % (self.filters[i], got, self.expected(i)), schedule
        return None, schedule


def replay_schedule(hz, nthreads, warm, schedule, small_cache=0, trace_eval=0):
    return _run_ids_impl(Scenario(hz, nthreads, warm, small_cache, trace_eval), list(schedule))


def _run_ids_impl(sc, ids):
    """same loop as Scenario.run but the next thread is ids[step] (when runnable)"""
    import threading as th
    sc.reset()
    n = sc.n
    go = [th.Semaphore(0) for _ in range(n)]
    back = th.Semaphore(0)
    state = dict(done=[False] * n, result=[None] * n, error=[None] * n)
    g = sc.grid()
    fname = sc.file

    def tracer_for(i):
        def local(frame, event, arg):
            if event == 'line':
                back.release()
                go[i].acquire()
            return local

        def glob(frame, event, arg):
            if event == 'call' and frame.f_code.co_filename == fname and frame.f_code.co_name in sc.traced:
                return local
            return None
        return glob

    def worker(i):
        go[i].acquire()
        sys.settrace(tracer_for(i))
        try:
            out = g.filter(sc.filters[i])
            state['result'][i] = [r['id'] for r in out]
        except BaseException as e:       # noqa
            state['error'][i] = '%s: %s' % (type(e).__name__, str(e)[:100])
        finally:
            sys.settrace(None)
            state['done'][i] = True
            back.release()
    threads = [th.Thread(target=worker, args=(i,), daemon=True) for i in range(n)]
    for t in threads:
        t.start()
    step = 0
    while not all(state['done']):
        runnable = [i for i in range(n) if not state['done'][i]]
        pick = ids[step] if step < len(ids) and ids[step] in runnable else runnable[0]
        go[pick].release()
        back.acquire()
        step += 1
        if step > 3000:
            return 'scheduler ran more than 3000 steps'
    for i in range(n):
        if state['error'][i]:
            return 'thread %d (filter %r) raised %s under schedule %r' % (i, sc.filters[i], state['error'][i], ids)
        if state['result'][i] != sc.expected(i):
            return 'thread %d (filter %r) got rows %r instead of %r under schedule %r' % (i, sc.filters[i], state['result'][i], sc.expected(i), ids)
    with contextlib.redirect_stdout(io.StringIO()):
        for i in range(n):
            try:
                got = [r['id'] for r in g.filter(sc.filters[i])]
            except Exception as e:
                return 'after schedule %r, filter %r raised %s' % (ids, sc.filters[i], type(e).__name__)
            if got != sc.expected(i):
                return 'after schedule %r, filter %r gives %r instead of %r' % (ids, sc.filters[i], got, sc.expected(i))
    return None


def sequence_run(hz, ops, capacity=2, family=1):
    if family == 2:
        return sequence_run_values(hz, ops, capacity)
    return _sequence_run_kinds(hz, ops, capacity)


def sequence_run_values(hz, ops, capacity=2):
    """histories in which comparisons fail or succeed depending on the VALUES met (quantities whose units differ from the
    literal's, text against a number) and in which one entity is changed between two evaluations of a previously obtained
    function.  ops = list of (filter index, flag): flag False -> evaluate the filter over the grid; flag True -> change the
    probe entity's value, then evaluate the previously obtained function (or a fresh one) on that one entity."""
    import functools
    GF = sys.modules['hszinc.grid_filter']
    D = sys.modules['hszinc.datatypes']
    GF.print = lambda *a, **k: None
    inner = getattr(GF._filter_function, '__wrapped__', GF._filter_function)
    GF._filter_function = functools.lru_cache(maxsize=capacity)(inner)
    Q = D.Quantity
    texts = ['p > 20kW and id', 'p > 5W and id', 'p < 25kW and id', 'p < 5W and id']
    cells = [Q(22, 'kW'), Q(3, 'W'), Q(30, 'kW'), 'text', Q(10, 'W')]
    wants = [['r0', 'r2'], ['r4'], ['r0'], ['r1']]
    g = hz.Grid(version='3.0', columns=[('id', []), ('p', [])])
    for i, v in enumerate(cells):
        g.append({'id': 'r%d' % i, 'p': v})
    probe = {'id': 'probe', 'p': Q(21, 'kW')}
    probe_vals = [Q(21, 'kW'), Q(4, 'W'), Q(26, 'kW'), Q(6, 'W')]
    spec = [('>', 20, 'kW'), ('>', 5, 'W'), ('<', 25, 'kW'), ('<', 5, 'W')]          # the four filters, restated

    def ref(fi, v):
        op, x, u = spec[fi]
        if not isinstance(v, Q) or v.unit != u:
            return False            # another kind / another unit: incomparable, so false
        return v.value > x if op == '>' else v.value < x
    probe_want = [[ref(fi, v) for fi in range(4)] for v in probe_vals]
    assert wants == [['r%d' % i for i, c in enumerate(cells) if ref(fi, c)] for fi in range(4)]
    pv = 0
    held = {}
    for k, (fi, flag) in enumerate(ops):
        try:
            if flag:
                pv = (pv + 1 + fi) % len(probe_vals)
                probe['p'] = probe_vals[pv]
                fn = held.get(fi) or GF.filter_function(texts[fi])
                held.setdefault(fi, fn)
                got = bool(fn(g, probe))
                if got != probe_want[pv][fi]:
                    return 'step %d of %r: filter %r on an entity whose p is now %r gives %r' % (k, ops, texts[fi], probe['p'], got)
                got2 = bool(fn(g, probe))
                if got2 != got:
                    return 'step %d of %r: filter %r evaluated twice on one entity gives %r then %r' % (k, ops, texts[fi], got, got2)
                continue
            got = [r['id'] for r in g.filter(texts[fi])]
            held.setdefault(fi, GF.filter_function(texts[fi]))
        except Exception as e:
            return 'step %d of %r raised %s: %s' % (k, ops, type(e).__name__, str(e)[:80])
        if got != wants[fi]:
            return 'step %d of %r: filter %r gives %r instead of %r' % (k, ops, texts[fi], got, wants[fi])
    return None


def _sequence_run_kinds(hz, ops, capacity=2):
    """history over a small alphabet: ops = list of (filter index, use a previously obtained function?) with an LRU cache of
    `capacity` entries.  -> problem or None"""
    import functools
    GF = sys.modules['hszinc.grid_filter']
    GF.print = lambda *a, **k: None
    inner = getattr(GF._filter_function, '__wrapped__', GF._filter_function)
    GF._filter_function = functools.lru_cache(maxsize=capacity)(inner)
    # four filters of one shape whose literals are equal-and-hash-alike in Python but of different Haystack kinds
    # (Bool true / Number 1, Bool false / Number 0): anything keyed by the shape or by the literal's hash mixes them up
    texts = ['v == true and id', 'v == 1 and id', 'v == false and id', 'v == 0 and id']
    g = hz.Grid(version='3.0', columns=[('id', []), ('v', [])])
    for i, v in enumerate([True, 1, False, 0]):
        g.append({'id': 'r%d' % i, 'v': v})
    held = {}
    for k, (fi, use_held) in enumerate(ops):
        want = ['r%d' % fi]
        try:
            if use_held and fi in held:
                got = [r['id'] for r in g if held[fi](g, r)]
            else:
                got = [r['id'] for r in g.filter(texts[fi])]
                held.setdefault(fi, GF.filter_function(texts[fi]))
        except Exception as e:
            return 'step %d of %r raised %s: %s' % (k, ops, type(e).__name__, str(e)[:80])
        if got != want:
            return 'step %d of %r: filter %r gives %r instead of %r' % (k, ops, texts[fi], got, want)
    return None


def long_history(hz, n_filters=1500, hot_every=7):
    """concrete long history around the real cache capacity: n distinct filters stream through the LRU cache while a hot
    filter is re-used; every result is compared with the expected rows.  -> problem or None"""
    GF = sys.modules['hszinc.grid_filter']
    GF._filter_function.cache_clear()
    g = hz.Grid(version='3.0', columns=[('id', []), ('n', [])])
    for i in range(40):
        g.append({'id': 'r%d' % i, 'n': i, ('t%d' % (i % 7)): hz.MARKER})
    hot = 't3 and n > 10'
    want_hot = [r['id'] for r in g if 't3' in r and r['n'] > 10]
    held = []
    with contextlib.redirect_stdout(io.StringIO()):
        for k in range(n_filters):
            text = 'n == %d' % (k % 40) if k % 3 else 'n >= %d and n < %d' % (k % 40, (k % 40) + 2 + k // 40)
            text = text + ' or n == %d' % (1000 + k)          # make every filter text distinct
            try:
                got = [r['id'] for r in g.filter(text)]
            except Exception as e:
                return 'filter #%d %r raised %s: %s' % (k, text, type(e).__name__, str(e)[:80])
            if k % 3:
                want = ['r%d' % (k % 40)]
            else:
                want = [r['id'] for r in g if (k % 40) <= r['n'] < (k % 40) + 2 + k // 40]
            if got != want:
                return 'filter #%d %r gives %r instead of %r' % (k, text, got[:5], want[:5])
            if k % 97 == 0:
                held.append((GF.filter_function(text), want, text))
            if k % hot_every == 0:
                try:
                    got = [r['id'] for r in g.filter(hot)]
                except Exception as e:
                    return 'hot filter raised %s at step %d: %s' % (type(e).__name__, k, str(e)[:80])
                if got != want_hot:
                    return 'hot filter gives %r instead of %r at step %d' % (got[:5], want_hot[:5], k)
        # previously obtained functions keep working after any number of later compilations
        for fn, want, text in held:
            try:
                got = [r['id'] for r in g if fn(g, r)]
            except Exception as e:
                return 'previously obtained function for %r raised %s' % (text, type(e).__name__)
            if got != want:
                return 'previously obtained function for %r gives %r instead of %r' % (text, got[:5], want[:5])
    return None
