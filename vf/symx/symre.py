"""Symbolic matcher for Python `re` patterns and pyparsing elements
over a bounded text whose characters are z3 Int terms (code points) or ints.

Text model: list `T` of length L of chars; each char is a python int (concrete)
or a z3 Int term; -1 denotes "past end of text" (padding).
"""
import re
try:
    import re._parser as sre_parse
    import re._constants as sre_c
except ImportError:  # pragma: no cover
    import sre_parse
    import sre_constants as sre_c
import z3

TRUE = z3.BoolVal(True)
FALSE = z3.BoolVal(False)


def is_conc(x):
    return isinstance(x, int)


def b_and(*xs):
    out = []
    for x in xs:
        if x is True or (z3.is_true(x) if not isinstance(x, bool) else False):
            continue
        if x is False or (z3.is_false(x) if not isinstance(x, bool) else False):
            return False
        out.append(x)
    if not out:
        return True
    if len(out) == 1:
        return out[0]
    return z3.And(*out)


def b_or(*xs):
    out = []
    for x in xs:
        if x is False or (not isinstance(x, bool) and z3.is_false(x)):
            continue
        if x is True or (not isinstance(x, bool) and z3.is_true(x)):
            return True
        out.append(x)
    if not out:
        return False
    if len(out) == 1:
        return out[0]
    return z3.Or(*out)


def b_not(x):
    if x is True:
        return False
    if x is False:
        return True
    if z3.is_true(x):
        return False
    if z3.is_false(x):
        return True
    return z3.Not(x)


def to_z3(b):
    if b is True:
        return TRUE
    if b is False:
        return FALSE
    return b


def ch_eq(c, k):
    if is_conc(c):
        return c == k
    return c == k


def ch_in_range(c, lo, hi):
    if is_conc(c):
        return lo <= c <= hi
    if lo == hi:
        return c == lo
    return z3.And(c >= lo, c <= hi)


class Text:
    def __init__(self, chars):
        self.c = list(chars)
        self.L = len(self.c)

    def at(self, p):
        if p >= self.L:
            return -1
        return self.c[p]

    def is_end(self, p):
        if p >= self.L:
            return True
        c = self.c[p]
        if is_conc(c):
            return c == -1
        return c == -1


_DIGITS = None
_SPACES = None
_WORDS = None


def _cat_ranges(pred):
    out = []
    start = None
    for cp in range(0x110000):
        if pred(chr(cp)):
            if start is None:
                start = cp
        else:
            if start is not None:
                out.append((start, cp - 1))
                start = None
    if start is not None:
        out.append((start, 0x10ffff))
    return out


_CATS = {}


def cat_ranges(cat):
    if cat not in _CATS:
        if cat == sre_c.CATEGORY_DIGIT:
            _CATS[cat] = _cat_ranges(lambda ch: ch.isdigit() and re.match(r'\d', ch) is not None)
        elif cat == sre_c.CATEGORY_SPACE:
            _CATS[cat] = _cat_ranges(lambda ch: re.match(r'\s', ch) is not None)
        elif cat == sre_c.CATEGORY_WORD:
            _CATS[cat] = _cat_ranges(lambda ch: re.match(r'\w', ch) is not None)
        else:
            raise NotImplementedError(cat)
    return _CATS[cat]


_CATRE = {}
_CONC_CAT = {}


def conc_in_cat(cat, c):
    """concrete character against a category, by asking `re` itself (cached)"""
    k = (cat, c)
    if k not in _CONC_CAT:
        if cat not in _CATRE:
            _CATRE[cat] = re.compile({sre_c.CATEGORY_DIGIT: r'\d', sre_c.CATEGORY_SPACE: r'\s', sre_c.CATEGORY_WORD: r'\w'}[cat])
        _CONC_CAT[k] = _CATRE[cat].match(chr(c)) is not None
    return _CONC_CAT[k]


_SYM_CAT = {}


def class_test(items, c):
    """items: sre IN items; returns bool formula that char c (>=0) is in class."""
    if is_conc(c):
        if c < 0:
            return False
        neg = False
        hit = False
        for op, av in items:
            if op is sre_c.NEGATE:
                neg = True
            elif op is sre_c.LITERAL:
                hit = hit or (c == av)
            elif op is sre_c.RANGE:
                hit = hit or (av[0] <= c <= av[1])
            elif op is sre_c.CATEGORY:
                m = {sre_c.CATEGORY_NOT_DIGIT: sre_c.CATEGORY_DIGIT, sre_c.CATEGORY_NOT_SPACE: sre_c.CATEGORY_SPACE,
                     sre_c.CATEGORY_NOT_WORD: sre_c.CATEGORY_WORD}
                if av in m:
                    hit = hit or (not conc_in_cat(m[av], c))
                else:
                    hit = hit or conc_in_cat(av, c)
            else:
                raise NotImplementedError(op)
        return (not hit) if neg else hit
    neg = False
    tests = []
    for op, av in items:
        if op is sre_c.NEGATE:
            neg = True
        elif op is sre_c.LITERAL:
            tests.append(ch_eq(c, av))
        elif op is sre_c.RANGE:
            tests.append(ch_in_range(c, av[0], av[1]))
        elif op is sre_c.CATEGORY:
            negcat = False
            cat = av
            m = {sre_c.CATEGORY_NOT_DIGIT: sre_c.CATEGORY_DIGIT,
                 sre_c.CATEGORY_NOT_SPACE: sre_c.CATEGORY_SPACE,
                 sre_c.CATEGORY_NOT_WORD: sre_c.CATEGORY_WORD}
            if cat in m:
                negcat = True
                cat = m[cat]
            key = (cat, c.get_id())
            if key not in _SYM_CAT:
                _SYM_CAT[key] = b_or(*[ch_in_range(c, lo, hi) for lo, hi in cat_ranges(cat)])
            t = _SYM_CAT[key]
            tests.append(b_not(t) if negcat else t)
        else:
            raise NotImplementedError(op)
    r = b_or(*tests)
    if neg:
        r = b_not(r)
    notend = (c != -1) if is_conc(c) else (c >= 0)
    return b_and(notend, r)


_TREES = {}


class SreMatcher:
    """Computes, for pattern and start position, the priority-ordered list of
    (guard, end, groups) alternatives following Python's backtracking order."""

    def __init__(self, pattern, text):
        if isinstance(pattern, str):
            pattern = re.compile(pattern)
        self.flags = pattern.flags
        key = (pattern.pattern, pattern.flags)
        if key not in _TREES:
            _TREES[key] = sre_parse.parse(pattern.pattern, pattern.flags & (re.M | re.S | re.I | re.X))
        self.tree = _TREES[key]
        if self.flags & re.I:
            raise NotImplementedError('IGNORECASE')
        self.text = text
        self.memo = {}

    # returns list of (guard, end, groups) in priority order
    def seq(self, items, idx, p, groups):
        key = (id(items), idx, p, groups)
        if key in self.memo:
            return self.memo[key]
        if idx == len(items):
            res = [(True, p, groups)]
        else:
            res = []
            for g1, e1, gr1 in self.one(items[idx], p, groups):
                if g1 is False:
                    continue
                for g2, e2, gr2 in self.seq(items, idx + 1, e1, gr1):
                    g = b_and(g1, g2)
                    if g is False:
                        continue
                    res.append((g, e2, gr2))
        self.memo[key] = res
        return res

    def one(self, item, p, groups):
        op, av = item
        T = self.text
        c = T.at(p)
        if op is sre_c.LITERAL:
            g = ch_eq(c, av)
            return [(g, p + 1, groups)] if g is not False else []
        if op is sre_c.NOT_LITERAL:
            notend = (c != -1) if is_conc(c) else (c >= 0)
            g = b_and(notend, b_not(ch_eq(c, av)))
            return [(g, p + 1, groups)] if g is not False else []
        if op is sre_c.ANY:
            notend = (c != -1) if is_conc(c) else (c >= 0)
            if self.flags & re.S:
                g = notend
            else:
                g = b_and(notend, b_not(ch_eq(c, 10)))
            return [(g, p + 1, groups)] if g is not False else []
        if op is sre_c.IN:
            g = class_test(av, c)
            return [(g, p + 1, groups)] if g is not False else []
        if op is sre_c.BRANCH:
            res = []
            for alt in av[1]:
                res.extend(self.seq(alt, 0, p, groups))
            return res
        if op is sre_c.SUBPATTERN:
            gid, add_flags, del_flags, sub = av
            res = []
            for g, e, gr in self.seq(sub, 0, p, groups):
                if gid is not None:
                    gr = gr + ((gid, p, e),)
                res.append((g, e, gr))
            return res
        if op in (sre_c.MAX_REPEAT, sre_c.MIN_REPEAT):
            lo, hi, sub = av
            greedy = op is sre_c.MAX_REPEAT
            return self.rep(sub, lo, hi, greedy, 0, p, groups)
        if op is sre_c.AT:
            if av is sre_c.AT_BEGINNING:
                if self.flags & re.M:
                    g = True if p == 0 else ch_eq(T.at(p - 1), 10)
                else:
                    g = (p == 0)
            elif av is sre_c.AT_BEGINNING_STRING:
                g = (p == 0)
            elif av is sre_c.AT_END:
                end = T.is_end(p)
                if self.flags & re.M:
                    g = b_or(end, ch_eq(c, 10))
                else:
                    g = b_or(end, b_and(ch_eq(c, 10), T.is_end(p + 1)))
            elif av is sre_c.AT_END_STRING:
                g = T.is_end(p)
            else:
                raise NotImplementedError(av)
            return [(g, p, groups)] if g is not False else []
        if op is sre_c.ASSERT:
            direction, sub = av
            if direction == -1:
                # lookbehind of fixed width
                lo, hi = sub.getwidth()
                assert lo == hi
                if p - lo < 0:
                    return []
                alts = self.seq(sub, 0, p - lo, groups)
                g = b_or(*[b_and(a[0], a[1] == p) for a in alts])
                return [(g, p, groups)] if g is not False else []
            alts = self.seq(sub, 0, p, groups)
            g = b_or(*[a[0] for a in alts])
            return [(g, p, groups)] if g is not False else []
        if op is sre_c.ASSERT_NOT:
            direction, sub = av
            assert direction == 1
            alts = self.seq(sub, 0, p, groups)
            g = b_not(b_or(*[a[0] for a in alts]))
            return [(g, p, groups)] if g is not False else []
        raise NotImplementedError(op)

    def rep(self, sub, lo, hi, greedy, k, p, groups):
        key = ('rep', id(sub), lo, hi, greedy, k, p, groups)
        if key in self.memo:
            return self.memo[key]
        res_more = []
        if (hi is sre_c.MAXREPEAT or k < hi) and p <= self.text.L:
            for g1, e1, gr1 in self.seq(sub, 0, p, groups):
                if e1 == p and k >= lo:
                    continue  # zero-width iteration: stop (sre semantics)
                for g2, e2, gr2 in self.rep(sub, lo, hi, greedy, k + 1, e1, gr1):
                    g = b_and(g1, g2)
                    if g is not False:
                        res_more.append((g, e2, gr2))
        stop = [(True, p, groups)] if k >= lo else []
        res = res_more + stop if greedy else stop + res_more
        self.memo[key] = res
        return res

    # ---- lazy (generator) enumeration in the same priority order: used when the caller decides the guards one by
    # ---- one and stops at the first one decided true (exactly what a backtracking matcher does); avoids building
    # ---- the exponentially many alternatives of patterns like ([^x].*)* on mostly concrete text
    def iseq(self, items, idx, p, groups):
        if idx == len(items):
            yield (True, p, groups)
            return
        for g1, e1, gr1 in self.ione(items[idx], p, groups):
            if g1 is False:
                continue
            for g2, e2, gr2 in self.iseq(items, idx + 1, e1, gr1):
                g = b_and(g1, g2)
                if g is False:
                    continue
                yield (g, e2, gr2)

    def ione(self, item, p, groups):
        op, av = item
        if op is sre_c.BRANCH:
            for alt in av[1]:
                for r in self.iseq(alt, 0, p, groups):
                    yield r
            return
        if op is sre_c.SUBPATTERN:
            gid, add_flags, del_flags, sub = av
            for g, e, gr in self.iseq(sub, 0, p, groups):
                if gid is not None:
                    gr = tuple(x for x in gr if x[0] != gid) + ((gid, p, e),)
                yield (g, e, gr)
            return
        if op in (sre_c.MAX_REPEAT, sre_c.MIN_REPEAT):
            lo, hi, sub = av
            for r in self.irep(sub, lo, hi, op is sre_c.MAX_REPEAT, 0, p, groups):
                yield r
            return
        for r in self.one(item, p, groups):
            yield r

    def irep(self, sub, lo, hi, greedy, k, p, groups):
        stop = [(True, p, groups)] if k >= lo else []
        if not greedy:
            for r in stop:
                yield r
        if (hi is sre_c.MAXREPEAT or k < hi) and p <= self.text.L:
            for g1, e1, gr1 in self.iseq(sub, 0, p, groups):
                if e1 == p and k >= lo:
                    continue
                for g2, e2, gr2 in self.irep(sub, lo, hi, greedy, k + 1, e1, gr1):
                    g = b_and(g1, g2)
                    if g is not False:
                        yield (g, e2, gr2)
        if greedy:
            for r in stop:
                yield r

    def iter_alternatives(self, p, limit=20000):
        n = 0
        for r in self.iseq(list(self.tree), 0, p, ()):
            n += 1
            if n > limit:
                raise RuntimeError('regex alternative explosion')
            yield r

    def match_at(self, p):
        """Return mutually-exclusive [(guard, end, groups)] — the match Python
        would return for pattern.match(text, p)."""
        alts = self.seq(self.tree.data if hasattr(self.tree, 'data') else list(self.tree), 0, p, ())
        out = []
        prior = []  # guards of higher-priority alternatives
        for g, e, gr in alts:
            gg = b_and(g, *[b_not(x) for x in prior])
            if gg is not False:
                out.append((gg, e, gr))
            if g is True:
                break
            prior.append(g)
        return out
