"""Run one PEP316-style harness function (pre:/post: _ docstring, int/bool arguments)
under the symx explorer.  Invoked as a subprocess:
    python -m vf.symx.contract <module.py> <function> <timeout_s> [max_paths]
prints one JSON line with the verdict."""
import importlib.util
import inspect
import io
import json
import re
import sys
import time
import contextlib
import traceback

import z3

from . import core


def load(path):
    spec = importlib.util.spec_from_file_location('h_module', path)
    mod = importlib.util.module_from_spec(spec)
    with contextlib.redirect_stdout(io.StringIO()):
        spec.loader.exec_module(mod)
    return mod


def run(path, fname, timeout, max_paths=None):
    mod = load(path)
    fn = getattr(mod, fname)
    doc = inspect.getdoc(fn) or ''
    pres = [m.group(1).strip() for m in re.finditer(r'^\s*pre:\s*(.*)$', doc, re.M)]
    pre_code = [compile(p, '<pre>', 'eval') for p in pres]
    sig = inspect.signature(fn)
    names = list(sig.parameters)
    kinds = []
    for n in names:
        ann = sig.parameters[n].annotation
        if ann is bool:
            kinds.append('bool')
        elif ann is int:
            kinds.append('int')
        else:
            raise core.Unsupported('argument type %r' % (ann,))
    ex = core.Explorer(timeout=timeout, max_paths=max_paths)
    found = {}
    stats = {'reached': 0, 'samples': []}

    def body():
        terms = []
        args = []
        for n, k in zip(names, kinds):
            if k == 'int':
                t = z3.Int(n)
                args.append(core.SymInt(t))
            else:
                t = z3.Bool(n)
                args.append(core.SymBool(t))
            terms.append(t)
        env = dict(mod.__dict__)
        env.update(zip(names, args))
        for c in pre_code:
            if not bool(eval(c, env)):
                raise core.PathAbort()
        stats['reached'] += 1

        def model_call():
            assert ex.check() == z3.sat
            m = ex.model()
            vals = []
            for t, k in zip(terms, kinds):
                v = m.eval(t, model_completion=True)
                vals.append(repr(v.as_long()) if k == 'int' else repr(z3.is_true(v)))
            return '%s(%s)' % (fname, ', '.join(vals))
        try:
            with contextlib.redirect_stdout(io.StringIO()):
                r = fn(*args)
            ok = bool(r) if isinstance(r, core.SymBool) else (r is True)
            if ok:
                if len(stats['samples']) < 3 and ex.symbolic_branches:
                    stats['samples'].append(model_call())
                return ('ok',)
            return ('cex', 'returned %r' % (r,), model_call())
        except Exception as e:
            return ('cex', '%s: %s' % (type(e).__name__, e), model_call())

    def on_result(r, ex):
        if r and r[0] == 'cex':
            found['cex'] = r
            return True
        return False

    t0 = time.time()
    status = ex.explore(body, on_result=on_result)
    out = dict(function=fname, status=status, paths=ex.paths, aborted=ex.aborted, reached=stats['reached'],
               checks=ex.checks, solver_s=round(ex.solver_time, 3), wall_s=round(time.time() - t0, 3),
               nontrivial=ex.nontrivial, unknowns=ex.unknowns, errors=ex.errors[:5], samples=stats['samples'])
    if 'cex' in found:
        out['cex'] = dict(message=found['cex'][1][:300], call=found['cex'][2])
    return out


if __name__ == '__main__':
    try:
        res = run(sys.argv[1], sys.argv[2], float(sys.argv[3]), int(sys.argv[4]) if len(sys.argv) > 4 else None)
    except BaseException as e:  # noqa
        res = dict(function=sys.argv[2], status='fault', error=traceback.format_exc()[-1500:])
    sys.stdout.write('\nSYMX-RESULT ' + json.dumps(res) + '\n')
