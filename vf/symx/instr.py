"""AST instrumentation + import hook: loads the hszinc package from the repository under test with
`%`, `in`, every call and the str base class of Uri/Bin rerouted through the symx shims.  For concrete
values the rewritten code behaves exactly like the original (validated by the translator self-test)."""
import ast
import builtins
import importlib.abc
import importlib.machinery
import importlib.util
import os
import re
import sys
import types

import pyparsing as pp

from . import core, sstr, sympp
from .core import Unsupported, SymInt, SymBool, SymReal
from .sstr import SymStr, has_sym, to_plain

CALLED = set()          # qualified names of hszinc functions executed through the dispatcher (evidence)
SHIMS = {}              # id(function) -> handler(*args, **kw)
SHIM_KEEP = []
METHOD_SHIMS = {}       # (type, name) -> handler(self, *args, **kw)
STUBS = {}              # name -> handler, installed by harnesses (float, strptime, ...)

SAFE_MODULE_PREFIXES = ('hszinc', 'functools', 'collections', '_collections_abc', 'copy', 'abc', 'six', 'vf.', '__main__', 'operator', 'symref_')


def register(fn, handler):
    SHIMS[id(fn)] = handler
    SHIM_KEEP.append(fn)


def _sym_deep(x, depth=2):
    if isinstance(x, (SymStr, SymInt, SymBool, SymReal)):
        return True
    if depth and isinstance(x, (list, tuple)):
        return any(_sym_deep(y, depth - 1) for y in x)
    if depth and isinstance(x, dict):
        return any(_sym_deep(y, depth - 1) for y in x.values())
    return False


def _isinstance(a, cls):
    if builtins.isinstance(a, cls):
        return True
    if builtins.isinstance(a, SymStr):
        return issubclass(str, cls) if not builtins.isinstance(cls, tuple) else any(issubclass(str, c) for c in cls)
    if builtins.isinstance(a, SymInt):
        return issubclass(int, cls) if not builtins.isinstance(cls, tuple) else any(issubclass(int, c) for c in cls)
    if builtins.isinstance(a, SymBool):
        return issubclass(bool, cls) if not builtins.isinstance(cls, tuple) else any(issubclass(bool, c) for c in cls)
    if builtins.isinstance(a, SymReal):
        return issubclass(float, cls) if not builtins.isinstance(cls, tuple) else any(issubclass(float, c) for c in cls)
    return False


def _str(x='', *a):
    if builtins.isinstance(x, SymStr):
        return sstr.mks(x.c)
    if builtins.isinstance(x, (SymInt, SymBool)):
        return builtins.str(x)
    return builtins.str(x, *a)


def _float(x=0.0):
    if builtins.isinstance(x, SymStr):
        p = to_plain(x)
        if p is not None:
            return builtins.float(p)
        if 'float' in STUBS:
            return STUBS['float'](x)
        return builtins.float(conc_value(x))
    if builtins.isinstance(x, SymInt):
        return x
    return builtins.float(x)


def _int(x=0, *a, **k):
    base = k.get('base', a[0] if a else 10)
    if builtins.isinstance(x, SymStr):
        return sstr.sym_int(x, base)
    if builtins.isinstance(x, (SymInt, SymBool)):
        return x if builtins.isinstance(x, SymInt) else builtins.int(x)
    return builtins.int(x, *a, **k)


def _ord(x):
    if builtins.isinstance(x, SymStr):
        return sstr.sym_ord(x)
    return builtins.ord(x)


def _chr(x):
    return sstr.sym_chr(x)


def _print(*a, **k):
    return None          # logging stub: hszinc's debug prints have an empty body


def _repr(x):
    if builtins.isinstance(x, SymStr):
        return sstr.sym_repr(x) if to_plain(x) is None else builtins.repr(to_plain(x))
    if builtins.isinstance(x, list) and any(builtins.isinstance(y, SymStr) for y in x):
        return sstr.sym_obj_str(x, True)
    return builtins.repr(x)


register(builtins.isinstance, _isinstance)
register(builtins.str, _str)
register(builtins.float, _float)
register(builtins.int, _int)
register(builtins.ord, _ord)
register(builtins.chr, _chr)
register(builtins.print, _print)
register(builtins.repr, _repr)


def _pattern_shim(name):
    def h(pat, s, *a, **k):
        if not builtins.isinstance(s if name != 'sub' else a[0], SymStr):
            return getattr(pat, name)(s, *a, **k)
        if name == 'match':
            return sstr.re_match_at(pat, s, a[0] if a else 0)
        if name == 'fullmatch':
            return sstr.re_fullmatch(pat, s)
        if name == 'search':
            return sstr.re_search(pat, s, a[0] if a else 0)
        if name == 'split':
            return sstr.re_split(pat, s)
        if name == 'sub':
            return sstr.re_sub(pat, s, a[0])
        raise Unsupported('re.Pattern.%s' % name)
    return h


for _n in ('match', 'fullmatch', 'search', 'split', 'sub'):
    METHOD_SHIMS[(re.Pattern, _n)] = _pattern_shim(_n)


def _parse_string(elem, instring, parse_all=False, **k):
    parse_all = k.get('parseAll', k.get('parse_all', parse_all))
    if not builtins.isinstance(instring, SymStr):
        return elem.parse_string(instring, parse_all)
    return sympp.parse_string(elem, instring, parse_all)


def _str_method(name):
    def h(self, *a, **k):
        # a plain str receiver with symbolic arguments: lift the receiver
        return getattr(SymStr(self), name)(*a, **k)
    return h


import logging as _logging
for _n in ('debug', 'info', 'warning', 'error', 'exception', 'critical', 'log'):
    METHOD_SHIMS[(_logging.Logger, _n)] = (lambda self, *a, **k: None)      # logging stub: empty body

for _n in ('join', 'replace', 'startswith', 'endswith', 'split'):
    METHOD_SHIMS[(str, _n)] = _str_method(_n)


def sym_dict_lookup(d, key, default, have_default):
    """dict lookup with a symbolic string key: decided key by key (forking), never hashed"""
    p = to_plain(key)
    if p is not None:
        key = p
    else:
        for k in list(d.keys()):
            if builtins.isinstance(k, (str, SymStr)) and bool(key == k):
                return d[k]
        if have_default:
            return default
        raise KeyError(key)
    if have_default:
        return d.get(key, default)
    return d[key]


def _dict_get(self, key, default=None):
    if builtins.isinstance(key, SymStr):
        return sym_dict_lookup(self, key, default, True)
    return dict.get(self, key, default)


METHOD_SHIMS[(dict, 'get')] = _dict_get


def sx_getitem(obj, key):
    if builtins.isinstance(key, SymStr) and builtins.isinstance(obj, dict):
        return sym_dict_lookup(obj, key, None, False)
    return obj[key]


def _str_eq_family(self, *a, **k):
    raise Unsupported('str method on symbolic argument')


CONC_LIMIT = 700        # exhaustive forking over a symbolic character is attempted only for domains up to this size


def conc_value(x, depth=3):
    """concrete value of a proxy by exhaustive forking over its feasible values (small domains only)"""
    if builtins.isinstance(x, SymStr):
        ex = core.cur()
        chars = [c if builtins.isinstance(c, int) else ex.concretize(c, CONC_LIMIT) for c in x.c]
        plain = ''.join(map(chr, chars))
        return plain if type(x) is SymStr else type(x)(plain)
    if builtins.isinstance(x, SymInt):
        return core.cur().concretize(x.t, CONC_LIMIT)
    if builtins.isinstance(x, SymBool):
        return bool(x)
    if depth and builtins.isinstance(x, list):
        return [conc_value(y, depth - 1) for y in x]
    if depth and builtins.isinstance(x, tuple):
        return tuple(conc_value(y, depth - 1) for y in x)
    if depth and builtins.isinstance(x, dict):
        return dict((k, conc_value(y, depth - 1)) for k, y in x.items())
    return x


def conc_call(fn, args, kw, why):
    """no shim for this callee: concretise the symbolic arguments by exhaustive forking (sound, small domains only;
    raises Unsupported when a domain is too large) and make the original call"""
    args2 = [conc_value(a) for a in args]
    kw2 = dict((k, conc_value(v)) for k, v in kw.items())
    CONC_CALLS.add(why)
    return fn(*args2, **kw2)


CONC_CALLS = set()


def sx_call(fn, *args, **kw):
    # 1. nothing symbolic: the original call
    self_ = getattr(fn, '__self__', None)
    if (fn is builtins.str or fn is builtins.repr) and len(args) == 1 and not kw and sstr.hz_obj(args[0]):
        return sstr.obj_str(args[0]) if fn is builtins.str else sstr.obj_repr(args[0])
    if type(self_) is str and getattr(fn, '__name__', '') == 'join' and len(args) == 1:
        return sstr.sx_join(self_, list(args[0]))      # the iterable may be a lazy map over symbolic pieces
    if not (_sym_deep(args) or (kw and _sym_deep(list(kw.values()))) or builtins.isinstance(self_, (SymStr, SymInt, SymBool, SymReal))):
        if fn is builtins.print:
            return None
        if type(fn) is types.FunctionType and (fn.__module__ or '').startswith('hszinc'):
            CALLED.add(fn.__module__ + '.' + fn.__qualname__)
        return fn(*args, **kw)
    # 2. shims
    h = SHIMS.get(id(fn))
    if h is not None:
        return h(*args, **kw)
    name = getattr(fn, '__name__', '')
    if self_ is not None and not builtins.isinstance(self_, types.ModuleType):
        if builtins.isinstance(self_, pp.ParserElement) and name in ('parseString', 'parse_string'):
            return _parse_string(self_, *args, **kw)
        for klass in type(self_).__mro__:
            mh = METHOD_SHIMS.get((klass, name))
            if mh is not None:
                return mh(self_, *args, **kw)
        if builtins.isinstance(self_, (SymStr, SymInt, SymBool, SymReal)):
            return fn(*args, **kw)          # method of a proxy: implemented by the proxy itself
        if builtins.isinstance(self_, (str, bytes, bytearray, re.Pattern, re.Match)):
            return conc_call(fn, args, kw, '%s.%s with a symbolic argument' % (type(self_).__name__, name))
    # 3. python-level callables of hszinc itself (instrumented) and a few pure-python helpers
    mod = getattr(fn, '__module__', None) or ''
    if builtins.isinstance(fn, (types.FunctionType, types.MethodType, functools_partial)) or builtins.isinstance(fn, type):
        target = fn.func if builtins.isinstance(fn, functools_partial) else fn
        mod = getattr(target, '__module__', None) or ''
        if mod.startswith(SAFE_MODULE_PREFIXES):
            if mod.startswith('hszinc'):
                CALLED.add(mod + '.' + getattr(target, '__qualname__', name))
            return fn(*args, **kw)
        if builtins.isinstance(fn, type) and mod == 'builtins':
            if fn in (list, tuple, dict, set, frozenset, bool, map, zip, enumerate, reversed, filter, range, slice, object, type, super):
                return fn(*args, **kw)
            return conc_call(fn, args, kw, 'builtins.%s of a symbolic value' % fn.__name__)
        st = STUBS.get('%s.%s' % (mod, getattr(target, '__qualname__', name)))
        if st is not None:
            return st(*args, **kw)
        return conc_call(fn, args, kw, 'call of %s.%s with a symbolic argument (uninstrumented code)' % (mod, getattr(target, '__qualname__', name)))
    # 4. builtin functions / methods of builtin containers
    if builtins.isinstance(fn, (types.BuiltinFunctionType, types.BuiltinMethodType, types.MethodWrapperType, types.MethodDescriptorType, types.WrapperDescriptorType)):
        if self_ is None or builtins.isinstance(self_, types.ModuleType):
            if fn in SAFE_BUILTINS:
                return fn(*args, **kw)
            st = STUBS.get('%s.%s' % (mod, name))
            if st is not None:
                return st(*args, **kw)
            return conc_call(fn, args, kw, 'builtin %s.%s with a symbolic argument' % (mod, name))
        if builtins.isinstance(self_, (list, dict, tuple, set, frozenset, pp.ParseResults, BaseException, super)) or self_ is builtins.object:
            return fn(*args, **kw)
        if builtins.isinstance(self_, type):
            # classmethod-like builtin, e.g. bytearray.fromhex, datetime.strptime, dict.fromkeys
            st = STUBS.get('%s.%s' % (self_.__name__, name))
            if st is not None:
                return st(*args, **kw)
            return conc_call(fn, args, kw, '%s.%s with a symbolic argument' % (self_.__name__, name))
        return conc_call(fn, args, kw, 'method %s of %s with a symbolic argument' % (name, type(self_).__name__))
    if callable(fn):
        mod = getattr(type(fn), '__module__', '')
        if mod.startswith(SAFE_MODULE_PREFIXES) or mod.startswith('functools'):
            return fn(*args, **kw)
    return conc_call(fn, args, kw, 'call of %r with a symbolic argument' % (fn,))


import functools as _functools
functools_partial = _functools.partial
SAFE_BUILTINS = {len, any, all, sorted, min, max, sum, abs, hash, id, iter, next, getattr, setattr, hasattr, callable,
                 divmod, round, pow, vars, dir, issubclass}


class Tx(ast.NodeTransformer):
    NOWRAP = {'super', 'globals', 'locals', 'vars', 'exec', 'eval', 'dir'}

    def visit_BinOp(self, node):
        self.generic_visit(node)
        if isinstance(node.op, ast.Mod):
            return ast.copy_location(ast.Call(ast.Name('_sx_mod_', ast.Load()), [node.left, node.right], []), node)
        return node

    def visit_AugAssign(self, node):
        self.generic_visit(node)
        if isinstance(node.op, ast.Mod):
            tgt_load = ast.parse(ast.unparse(node.target), mode='eval').body
            return ast.copy_location(ast.Assign([node.target], ast.Call(ast.Name('_sx_mod_', ast.Load()), [tgt_load, node.value], [])), node)
        return node

    def visit_Compare(self, node):
        self.generic_visit(node)
        if len(node.ops) == 1 and isinstance(node.ops[0], (ast.In, ast.NotIn)):
            call = ast.Call(ast.Name('_sx_in_', ast.Load()), [node.left, node.comparators[0]], [])
            if isinstance(node.ops[0], ast.NotIn):
                call = ast.UnaryOp(ast.Not(), call)
            return ast.copy_location(call, node)
        return node

    def visit_Call(self, node):
        self.generic_visit(node)
        if isinstance(node.func, ast.Name) and node.func.id in self.NOWRAP:
            return node
        return ast.copy_location(ast.Call(ast.Name('_sx_call_', ast.Load()), [node.func] + node.args, node.keywords), node)

    def visit_Subscript(self, node):
        self.generic_visit(node)
        if isinstance(node.ctx, ast.Load) and not isinstance(node.slice, (ast.Slice, ast.Tuple)):
            return ast.copy_location(ast.Call(ast.Name('_sx_getitem_', ast.Load()), [node.value, node.slice], []), node)
        return node

    def visit_ClassDef(self, node):
        self.generic_visit(node)
        for i, b in enumerate(node.bases):
            if isinstance(b, ast.Attribute) and isinstance(b.value, ast.Name) and b.value.id == 'six' and b.attr == 'text_type':
                node.bases[i] = ast.copy_location(ast.Name('_sx_strbase_', ast.Load()), b)
        return node


def _in(a, b):
    return sstr.sx_in(a, b)


INJECT = {'_sx_mod_': sstr.sx_mod, '_sx_in_': _in, '_sx_call_': sx_call, '_sx_strbase_': SymStr, '_sx_getitem_': sx_getitem}


class _Loader(importlib.abc.Loader):
    def __init__(self, path, is_pkg):
        self.path, self.is_pkg = path, is_pkg

    def create_module(self, spec):
        return None

    def exec_module(self, module):
        src = open(self.path).read()
        tree = Tx().visit(ast.parse(src, self.path))
        ast.fix_missing_locations(tree)
        module.__dict__.update(INJECT)
        exec(compile(tree, self.path, 'exec'), module.__dict__)


class _Finder(importlib.abc.MetaPathFinder):
    def __init__(self, repo):
        self.root = os.path.join(repo, 'hszinc')

    def find_spec(self, name, path=None, target=None):
        if name != 'hszinc' and not name.startswith('hszinc.'):
            return None
        rel = name.split('.')[1:]
        pkg = os.path.join(self.root, *rel, '__init__.py')
        mod = os.path.join(self.root, *rel) + '.py'
        if os.path.exists(pkg) and (not rel or os.path.isdir(os.path.join(self.root, *rel))):
            spec = importlib.machinery.ModuleSpec(name, _Loader(pkg, True), origin=pkg, is_package=True)
            spec.submodule_search_locations = [os.path.dirname(pkg)]
            return spec
        if os.path.exists(mod):
            return importlib.machinery.ModuleSpec(name, _Loader(mod, False), origin=mod)
        return None


def load_instrumented(path, modname):
    """load one of our own pure-python reference modules through the same instrumentation, so that it can run
    on symbolic text (its `in`, ord(), chr() ... are rerouted through the shims)"""
    src = open(path).read()
    tree = Tx().visit(ast.parse(src, path))
    ast.fix_missing_locations(tree)
    mod = types.ModuleType(modname)
    mod.__file__ = path
    if '.' in modname:
        pkg = modname.rsplit('.', 1)[0]
        mod.__package__ = pkg
        if pkg not in sys.modules:
            pm = types.ModuleType(pkg)
            pm.__path__ = []
            sys.modules[pkg] = pm
    mod.__dict__.update(INJECT)
    sys.modules[modname] = mod
    exec(compile(tree, path, 'exec'), mod.__dict__)
    return mod


def install(repo, block_pint=True):
    """must be called before anything imports hszinc"""
    assert 'hszinc' not in sys.modules, 'plain hszinc already imported'
    if block_pint:
        sys.modules['pint'] = None          # MODE_PINT is outside every claim; also keeps imports fast
    sys.meta_path.insert(0, _Finder(repo))
    import io
    import contextlib
    with contextlib.redirect_stdout(io.StringIO()):
        import hszinc                        # noqa
        import hszinc.grid_filter            # noqa
    return sys.modules['hszinc']
