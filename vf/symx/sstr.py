"""SymStr: strings of concrete length whose characters are Python ints (code points) or z3 Int
terms; shims for the C-level operations hszinc applies to strings; the call dispatcher that the
AST instrumentation routes every call through.  Anything without a shim raises Unsupported."""
import re
import z3

from . import core
from .core import Unsupported, mkbool, SymInt, SymBool
from .symre import Text, SreMatcher, b_and, b_or, b_not, to_z3, is_conc


HASH_CONC_LIMIT = 700


def chars_of(o):
    if isinstance(o, SymStr):
        return list(o.c)
    if isinstance(o, str):
        return [ord(x) for x in o]
    raise Unsupported('string operand of type %s' % type(o).__name__)


def all_conc(chars):
    for c in chars:
        if not isinstance(c, int):
            return False
    return True


def mks(chars):
    """plain str when every character is concrete, SymStr otherwise"""
    chars = list(chars)
    if all_conc(chars):
        return ''.join(map(chr, chars))
    return SymStr(chars)


def has_sym(x):
    if isinstance(x, SymStr):
        return not (type(x) is SymStr and False)
    return isinstance(x, (SymInt, SymBool))


def to_plain(x):
    """concrete value of a proxy whose content is fully concrete (else None)"""
    if isinstance(x, SymStr) and all_conc(x.c):
        return ''.join(map(chr, x.c))
    return None


class SymStr:
    """immutable; also the base class that replaces six.text_type for Uri/Bin in the instrumented package"""

    def __init__(self, chars=()):
        if isinstance(chars, SymStr):
            self.c = list(chars.c)
        elif isinstance(chars, str):
            self.c = [ord(x) for x in chars]
        else:
            self.c = list(chars)

    # ---- structure ----
    def __len__(self):
        return len(self.c)

    def __bool__(self):
        return len(self.c) > 0

    def __getitem__(self, i):
        if isinstance(i, slice):
            return mks(self.c[i])
        if isinstance(i, SymInt):
            i = i.__index__()
        return mks([self.c[i]])

    def __iter__(self):
        return iter([mks([x]) for x in self.c])

    def __add__(self, o):
        if not isinstance(o, (str, SymStr)):
            return NotImplemented
        return mks(self.c + chars_of(o))

    def __radd__(self, o):
        if not isinstance(o, (str, SymStr)):
            return NotImplemented
        return mks(chars_of(o) + self.c)

    def __mul__(self, n):
        return mks(self.c * n)

    def __deepcopy__(self, memo):
        return self

    def __copy__(self):
        return self

    # ---- comparison ----
    def eq_term(self, o):
        oc = chars_of(o)
        if len(oc) != len(self.c):
            return False
        return b_and(*[(a == b) if not (isinstance(a, int) and isinstance(b, int)) else (a == b) for a, b in zip(self.c, oc)])

    def __eq__(self, o):
        if not isinstance(o, (str, SymStr)):
            return NotImplemented
        return mkbool(to_z3(self.eq_term(o))) if not isinstance(self.eq_term(o), bool) else self.eq_term(o)

    def __ne__(self, o):
        if not isinstance(o, (str, SymStr)):
            return NotImplemented
        e = self.eq_term(o)
        if isinstance(e, bool):
            return not e
        return mkbool(z3.Not(e))

    def _lex(self, o, strict_less):
        """self < o (lexicographic by code point) as a formula"""
        a, b = self.c, chars_of(o)
        res = (len(a) < len(b)) if strict_less else (len(a) <= len(b))
        # build from the end: at position i: a[i] < b[i] or (a[i] == b[i] and rest)
        n = min(len(a), len(b))
        for i in range(n - 1, -1, -1):
            res = b_or(a[i] < b[i], b_and(a[i] == b[i], res))
        return res

    def __lt__(self, o):
        return mkbool(to_z3(self._lex(o, True)))

    def __le__(self, o):
        return mkbool(to_z3(self._lex(o, False)))

    def __gt__(self, o):
        return mkbool(to_z3(b_not(self._lex(o, False))))

    def __ge__(self, o):
        return mkbool(to_z3(b_not(self._lex(o, True))))

    def __hash__(self):
        p = to_plain(self)
        if p is not None:
            return hash(p)
        # dict/set key: concretise by exhaustive forking when every symbolic character has a small domain
        ex = core.cur()
        chars = [c if isinstance(c, int) else ex.concretize(c, HASH_CONC_LIMIT) for c in self.c]
        return hash(''.join(map(chr, chars)))

    def __str__(self):
        p = to_plain(self)
        if p is not None:
            return p
        raise Unsupported('str() of a symbolic string reached C code')

    def __repr__(self):
        p = to_plain(self)
        if p is not None:
            return repr(p)
        raise Unsupported('repr() of a symbolic string reached C code')

    def __contains__(self, item):
        return bool(sx_in(item, self))

    # ---- str methods used by hszinc ----
    def replace(self, old, new, count=-1):
        oc, nc = chars_of(old), chars_of(new)
        if not oc:
            raise Unsupported('replace of the empty pattern')
        out = []
        i, n, done = 0, len(self.c), 0
        while i < n:
            hit = self._sw(old, i) if (count < 0 or done < count) else False
            if hit is True or (hit is not False and bool(mkbool(to_z3(hit)))):
                out.extend(nc)
                i += len(oc)
                done += 1
            else:
                out.append(self.c[i])
                i += 1
        return mks(out)

    def startswith(self, prefix, start=0):
        if isinstance(prefix, tuple):
            return mkbool(to_z3(b_or(*[self._sw(p, start) for p in prefix])))
        r = self._sw(prefix, start)
        return r if isinstance(r, bool) else mkbool(r)

    def _sw(self, prefix, start):
        pc = chars_of(prefix)
        if start + len(pc) > len(self.c):
            return False
        return b_and(*[(self.c[start + i] == pc[i]) for i in range(len(pc))])

    def endswith(self, suffix):
        sc = chars_of(suffix)
        if len(sc) > len(self.c):
            return False
        r = b_and(*[(self.c[len(self.c) - len(sc) + i] == sc[i]) for i in range(len(sc))])
        return r if isinstance(r, bool) else mkbool(r)

    def split(self, sep=None, maxsplit=-1):
        if sep is None:
            raise Unsupported('split() on whitespace')
        sc = chars_of(sep)
        if len(sc) != 1 or not all_conc(sc):
            raise Unsupported('split on a multi-character separator')
        parts, cur, n = [], [], 0
        for ch in self.c:
            hit = (ch == sc[0])
            if (maxsplit < 0 or n < maxsplit) and (hit is True or (hit is not False and bool(mkbool(hit)))):
                parts.append(mks(cur))
                cur = []
                n += 1
            else:
                cur.append(ch)
        parts.append(mks(cur))
        return parts

    def join(self, items):
        return sx_join(self, items)

    def upper(self):
        return self._case(True)

    def lower(self):
        return self._case(False)

    def _case(self, up):
        out = []
        for ch in self.c:
            if isinstance(ch, int):
                r = chr(ch).upper() if up else chr(ch).lower()
                out.extend(ord(x) for x in r)
                continue
            # symbolic: ASCII letters are mapped, other ASCII unchanged; non-ASCII case mapping is not modelled
            if bool(mkbool(ch < 128)):
                if up:
                    out.append(z3.If(z3.And(ch >= 97, ch <= 122), ch - 32, ch))
                else:
                    out.append(z3.If(z3.And(ch >= 65, ch <= 90), ch + 32, ch))
            else:
                v = core.cur().concretize(ch, HASH_CONC_LIMIT)      # non-ASCII: fork over the feasible values
                r = chr(v).upper() if up else chr(v).lower()
                out.extend(ord(x) for x in r)
        return mks(out)

    def __getattr__(self, name):
        """any other str method: concretise the text (exhaustive forking over small domains, sampling otherwise)
        and call the real method"""
        if name.startswith('__') or not hasattr(str, name):
            raise AttributeError(name)

        def call(*a, **k):
            ex = core.cur()
            chars = [c if isinstance(c, int) else ex.concretize(c, HASH_CONC_LIMIT) for c in self.c]
            plain = ''.join(map(chr, chars))
            a2 = [to_plain(x) if isinstance(x, SymStr) and to_plain(x) is not None else x for x in a]
            return getattr(plain, name)(*a2, **k)
        return call

    def ljust(self, width, fill=' '):
        return mks(self.c + [ord(fill)] * max(0, width - len(self.c)))

    def strip(self, chars=None):
        raise Unsupported('strip on a symbolic string')

    def encode(self, *a, **k):
        raise Unsupported('encode of a symbolic string')

    def isdigit(self):
        return mkbool(to_z3(b_and(len(self.c) > 0, *[z3.And(ch >= 48, ch <= 57) if not isinstance(ch, int) else chr(ch).isdigit() for ch in self.c])))


# ---------------------------------------------------------------------------
class SymMatch:
    """result of a symbolic re match: spans are concrete, text symbolic"""

    def __init__(self, s, start, end, groups, ngroups):
        self.s, self.a, self.b = s, start, end
        self.g = {gid: (a, b) for gid, a, b in groups}
        self.n = ngroups

    def group(self, i=0):
        if i == 0:
            return self.s[self.a:self.b]
        if i not in self.g:
            return None
        a, b = self.g[i]
        return self.s[a:b]

    def groups(self):
        return tuple(self.group(i) for i in range(1, self.n + 1))

    def start(self, i=0):
        return self.a if i == 0 else self.g[i][0]

    def end(self, i=0):
        return self.b if i == 0 else self.g[i][1]

    def span(self, i=0):
        return (self.start(i), self.end(i))


def _sym_text(s):
    return Text(chars_of(s) + [-1])


def re_match_at(pat, s, pos, full=False):
    """Python's pattern.match(s, pos): alternatives in backtracking priority order, lazily; the first one whose guard
    is decided true is the match"""
    if not isinstance(s, SymStr):
        s = SymStr(s)
    M = SreMatcher(pat, _sym_text(s))
    try:
        for g, e, gr in M.iter_alternatives(pos):
            if full:
                g = b_and(g, e == len(s))
            if g is True or (g is not False and bool(mkbool(to_z3(g)))):
                return SymMatch(s, pos, e, gr, pat.groups)
    except RuntimeError as ex:
        raise Unsupported(str(ex))
    return None


def re_search(pat, s, pos=0):
    n = len(s)
    for p in range(pos, n + 1):
        m = re_match_at(pat, s, p)
        if m is not None:
            return m
    return None


def re_fullmatch(pat, s):
    """fullmatch is not 'first match then check the end': backtracking may find a longer alternative.  All
    alternatives in priority order are tried with the end condition inside the guard."""
    if not isinstance(s, SymStr):
        s = SymStr(s)
    M = SreMatcher(pat, _sym_text(s))
    try:
        for g, e, gr in M.iter_alternatives(0):
            if e != len(s):
                continue
            if g is True or (g is not False and bool(mkbool(to_z3(g)))):
                return SymMatch(s, 0, e, gr, pat.groups)
    except RuntimeError as ex:
        raise Unsupported(str(ex))
    return None


def re_sub(pat, repl, s):
    if not isinstance(s, SymStr):
        s = SymStr(s)
    out = []
    p = 0
    n = len(s)
    last_empty_at = -1
    while p <= n:
        m = re_match_at(pat, s, p)
        if m is not None and not (m.b == p and last_empty_at == p):
            if callable(repl):
                out.extend(chars_of(repl(m)))
            else:
                out.extend(expand_template(repl, m))
            if m.b == p:
                last_empty_at = p
                if p < n:
                    out.append(s.c[p])
                p += 1
            else:
                p = m.b
                last_empty_at = -1 if True else p
            continue
        if p < n:
            out.append(s.c[p])
        p += 1
    return mks(out)


_TPL = re.compile(r'\\(\d)|\\g<(\d+)>|\\(.)|([^\\]+)', re.S)
_TPL_ESC = {'n': '\n', 't': '\t', 'r': '\r', '\\': '\\'}


def expand_template(repl, m):
    out = []
    pos = 0
    for t in _TPL.finditer(repl):
        if t.start() != pos:
            raise Unsupported('re.sub template %r' % repl)
        pos = t.end()
        if t.group(1) or t.group(2):
            g = m.group(int(t.group(1) or t.group(2)))
            if g is not None:
                out.extend(chars_of(g))
        elif t.group(3) is not None:
            if t.group(3) not in _TPL_ESC:
                raise Unsupported('re.sub template escape %r' % t.group(3))
            out.extend(chars_of(_TPL_ESC[t.group(3)]))
        else:
            out.extend(chars_of(t.group(4)))
    if pos != len(repl):
        raise Unsupported('re.sub template %r' % repl)
    return out


def re_split(pat, s):
    if pat.groups:
        raise Unsupported('re.split with capture groups')
    if not isinstance(s, SymStr):
        s = SymStr(s)
    parts, cur = [], []
    p = 0
    n = len(s)
    while p < n:
        m = re_match_at(pat, s, p)
        if m is not None and m.b > p:
            parts.append(mks(cur))
            cur = []
            p = m.b
            continue
        cur.append(s.c[p])
        p += 1
    parts.append(mks(cur))
    return parts


# ---------------------------------------------------------------------------
_FMT = re.compile(r'%(?P<flags>[-0 +#]*)(?P<width>\d*)(?:\.(?P<prec>\d+))?(?P<conv>[sdxXfr%])|(?P<lit>[^%]+)')


def hexdigits(term, nd, upper=False):
    digs = []
    base = 55 if upper else 87
    for j in range(nd - 1, -1, -1):
        d = (term / (16 ** j)) % 16
        digs.append(z3.If(d < 10, 48 + d, base + d))
    return digs


def decdigits(term, nd):
    return [48 + (term / (10 ** j)) % 10 for j in range(nd - 1, -1, -1)]


REPR_STUB = None


def sym_repr(a):
    """repr() of a (partly) symbolic str: characters that repr() shows as themselves stay symbolic; any other
    character is concretised (exhaustive forking over small domains, sampling otherwise) and escaped by repr() itself"""
    ex = core.cur()
    out = [39]
    quote_seen = False
    for ch in a.c:
        if isinstance(ch, int):
            v = ch
        elif bool(mkbool(z3.And(ch >= 32, ch <= 126, ch != 39, ch != 92))):
            out.append(ch)
            continue
        else:
            v = ex.concretize(ch, HASH_CONC_LIMIT)
        r = repr(chr(v))[1:-1]
        if chr(v) == "'":
            r = "\\'"
        out.extend(ord(x) for x in r)
    out.append(39)
    return mks(out)


def sym_obj_str(a, r=False):
    """str()/repr() of a list/tuple/dict that may hold symbolic strings"""
    if isinstance(a, SymStr):
        return sym_repr(a) if (r or True) else a
    if isinstance(a, list):
        return sx_join(', ', [sym_obj_str(x, True) for x in a]).__radd__('[').__add__(']') if any(isinstance(x, SymStr) for x in a) else repr(a)
    return repr(a) if r else str(a)


def hz_obj(a):
    """an object of a class defined in hszinc (its __str__/__repr__ are instrumented Python code that may
    return symbolic text, which C-level str()/repr()/% would reject)"""
    t = type(a)
    return (getattr(t, '__module__', '') or '').startswith('hszinc') and not isinstance(a, (SymStr, BaseException))


def obj_str(a):
    t = type(a)
    if t.__str__ is not object.__str__:
        return t.__str__(a)
    return t.__repr__(a)


def obj_repr(a):
    return type(a).__repr__(a)


def sx_mod(l, r):
    args = r if isinstance(r, tuple) else (r,)
    if not (has_sym(l) or any(has_sym(a) or hz_obj(a) or (isinstance(a, list) and any(isinstance(x, SymStr) for x in a)) or (isinstance(a, BaseException) and any(isinstance(x, SymStr) for x in a.args)) for a in args)):
        return l % r
    if isinstance(l, SymStr):
        p = to_plain(l)
        if p is None:
            raise Unsupported('symbolic format string')
        l = p
    if not isinstance(l, str):
        return l % r           # numeric modulo on proxies
    out = []
    ai = 0
    pos = 0
    for m in _FMT.finditer(l):
        if m.start() != pos:
            raise Unsupported('format string %r' % l)
        pos = m.end()
        if m.group('lit') is not None:
            out.extend(ord(c) for c in m.group('lit'))
            continue
        conv = m.group('conv')
        if conv == '%':
            out.append(37)
            continue
        a = args[ai]
        ai += 1
        flags, width, prec = m.group('flags'), int(m.group('width') or 0), m.group('prec')
        if conv in 'sr' and isinstance(a, list) and any(isinstance(x, SymStr) for x in a):
            piece = chars_of(sym_obj_str(a))
        elif conv == 's' and isinstance(a, BaseException) and len(a.args) == 1 and isinstance(a.args[0], SymStr):
            piece = list(a.args[0].c)          # str(exception) is str(args[0])
        elif conv in 'sr' and hz_obj(a):
            piece = chars_of(obj_str(a) if conv == 's' else obj_repr(a))
        elif conv == 's':
            if isinstance(a, SymStr):
                piece = list(a.c)
            elif isinstance(a, (SymInt, SymBool)):
                piece = [ord(c) for c in str(a)]
            else:
                piece = None
                try:
                    piece = [ord(c) for c in str(a)]
                except Unsupported:
                    raise
                if piece is None:
                    raise Unsupported('%s of ' + type(a).__name__)
        elif conv == 'r':
            if isinstance(a, SymStr):
                # message stub: quote + raw characters + quote (escapes inside repr() are not modelled; hszinc uses
                # %r of text only in exception/log messages, and code generation from repr is handled by a separate stub)
                piece = chars_of(sym_repr(a))
            else:
                piece = [ord(c) for c in repr(a)]
        elif conv in 'xX' and isinstance(a, SymInt):
            nd = None
            for k in range(1, 7):
                lo = 0 if k == 1 else 16 ** (k - 1)
                if bool(mkbool(z3.And(a.t >= lo, a.t < 16 ** k))):
                    nd = k
                    break
            if nd is None:
                raise Unsupported('%x of a value outside 0..0xffffff')
            piece = hexdigits(a.t, nd, conv == 'X')
        elif conv == 'd' and isinstance(a, SymInt):
            piece = [ord(c) for c in str(a)]      # concretises (forking)
        else:
            piece = [ord(c) for c in (('%' + flags + (str(width) if width else '') + (('.' + prec) if prec else '') + conv) % a)]
            width = 0
        if width and len(piece) < width:
            pad = [48 if '0' in flags else 32] * (width - len(piece))
            piece = (piece + [32] * (width - len(piece))) if '-' in flags else (pad + piece)
        out.extend(piece)
    if pos != len(l):
        raise Unsupported('format string %r' % l)
    return mks(out)


def sx_in(a, b):
    """a in b"""
    if isinstance(b, SymStr) or (isinstance(a, SymStr) and isinstance(b, str)):
        ac, bc = chars_of(a), chars_of(b)
        if len(ac) == 0:
            return True
        alts = []
        for i in range(0, len(bc) - len(ac) + 1):
            alts.append(b_and(*[(bc[i + j] == ac[j]) for j in range(len(ac))]))
        r = b_or(*alts)
        return r if isinstance(r, bool) else mkbool(to_z3(r))
    if isinstance(a, SymStr) and isinstance(b, (tuple, list, set, frozenset)):
        p = to_plain(a)
        if p is not None:
            return p in b
        terms = []
        for x in b:
            if isinstance(x, (str, SymStr)):
                terms.append(a.eq_term(x))
        r = b_or(*terms)
        return r if isinstance(r, bool) else mkbool(to_z3(r))
    if isinstance(a, SymStr) and isinstance(b, dict):
        p = to_plain(a)
        if p is not None:
            return p in b
        for k in list(b):
            if isinstance(k, (str, SymStr)) and bool(a == k):
                return True
        return False
    return a in b


def sx_join(sep, items):
    items = list(items)
    if not isinstance(sep, SymStr) and not any(isinstance(x, SymStr) for x in items):
        return sep.join(items)
    out = []
    sc = chars_of(sep)
    for i, it in enumerate(items):
        if i:
            out.extend(sc)
        out.extend(chars_of(it))
    return mks(out)


def sym_ord(a):
    if len(a) != 1:
        raise TypeError('ord() expected a character')
    ch = a.c[0]
    return ch if isinstance(ch, int) else SymInt(ch)


def sym_chr(a):
    if isinstance(a, SymInt):
        if not bool(mkbool(z3.And(a.t >= 0, a.t <= 0x10ffff))):
            raise ValueError('chr() arg not in range(0x110000)')
        return mks([a.t])
    return chr(a)


def sym_int(a, base=10):
    """int(text, base) for symbolic text: raises ValueError on a non-digit (decided per character)"""
    if isinstance(a, SymInt):
        return a
    if not isinstance(a, SymStr):
        return int(a, base) if isinstance(a, str) else int(a)
    if len(a) == 0:
        raise ValueError("invalid literal for int()")
    val = 0
    for ch in a.c:
        if isinstance(ch, int):
            try:
                d = int(chr(ch), base)
            except ValueError:
                raise ValueError('invalid literal for int() with base %d' % base)
        else:
            if base == 16:
                dt = z3.If(z3.And(ch >= 48, ch <= 57), ch - 48,
                           z3.If(z3.And(ch >= 97, ch <= 102), ch - 87,
                                 z3.If(z3.And(ch >= 65, ch <= 70), ch - 55, -1)))
            elif base == 10:
                dt = z3.If(z3.And(ch >= 48, ch <= 57), ch - 48, -1)
            else:
                raise Unsupported('int() with base %r' % base)
            # non-ASCII decimal digits are accepted by int(); treat them as a separate (unsupported) class
            if not bool(mkbool(ch < 128)):
                v = core.cur().concretize(ch, HASH_CONC_LIMIT)      # non-ASCII digit candidates: fork over the feasible values
                try:
                    d = int(chr(v), base)
                except ValueError:
                    raise ValueError('invalid literal for int() with base %d' % base)
                val = val * base + d
                continue
            if not bool(mkbool(dt >= 0)):
                raise ValueError('invalid literal for int() with base %d' % base)
            d = dt
        val = val * base + d
    return val if isinstance(val, int) else SymInt(val)
