"""Symbolic *recognizer* for pyparsing element graphs (real objects)
over bounded Text with z3 chars.  rec(elem, p) -> [(guard, end)] mutually
exclusive guards; no outcome true == ParseException at p.
"""
import pyparsing as pp
import z3
from .symre import (Text, SreMatcher, b_and, b_or, b_not, ch_eq, is_conc, to_z3)

WHITE = None


def upper_preimage(ch):
    """all code points whose str.upper() == ch (single char)"""
    res = []
    for cp in range(0x110000):
        try:
            if chr(cp).upper() == ch:
                res.append(cp)
        except Exception:
            pass
    return res


_UP = {}


class Recognizer:
    def __init__(self, text, max_depth=64):
        self.T = text
        self.memo = {}
        self.sre = {}
        self.stats = {'calls': 0}
        self.inprogress = set()

    def group(self, outs):
        """merge outcomes with same end; keep exclusivity"""
        by = {}
        for g, e in outs:
            if g is False:
                continue
            by.setdefault(e, []).append(g)
        return [(b_or(*gs), e) for e, gs in sorted(by.items())]

    def skipws(self, elem, p):
        if not elem.skipWhitespace:
            return [(True, p)]
        wc = [ord(c) for c in elem.whiteChars]
        outs = []
        prefix = True
        q = p
        while True:
            c = self.T.at(q)
            isw = b_or(*[ch_eq(c, w) for w in wc])
            outs.append((b_and(prefix, b_not(isw)), q))
            prefix = b_and(prefix, isw)
            if prefix is False or q >= self.T.L:
                break
            q += 1
        return [(g, e) for g, e in outs if g is not False]

    def rec(self, elem, p, pre=True):
        key = (id(elem), p, pre)
        if key in self.memo:
            return self.memo[key]
        if key in self.inprogress:
            raise RecursionError('left recursion at %r' % elem)
        self.inprogress.add(key)
        self.stats['calls'] += 1
        outs = []
        starts = self.skipws(elem, p) if (pre and elem.callPreparse) else [(True, p)]
        for gs, ps in starts:
            for g, e in self.impl(elem, ps):
                gg = b_and(gs, g)
                if gg is not False:
                    outs.append((gg, e))
        outs = self.group(outs)
        self.inprogress.discard(key)
        self.memo[key] = outs
        return outs

    def lit(self, s, p):
        g = b_and(*[ch_eq(self.T.at(p + i), ord(ch)) for i, ch in enumerate(s)])
        return [(g, p + len(s))] if g is not False else []

    def impl(self, elem, p):
        T = self.T
        if isinstance(elem, pp.Regex) or (isinstance(elem, pp.Word) and getattr(elem, 're', None) is not None):
            k = id(elem)
            if k not in self.sre:
                self.sre[k] = SreMatcher(elem.re, T)
            return [(g, e) for g, e, _ in self.sre[k].match_at(p)]
        if isinstance(elem, pp.CaselessLiteral):
            m = elem.match
            gs = []
            for i, ch in enumerate(m):
                if ch not in _UP:
                    _UP[ch] = upper_preimage(ch)
                gs.append(b_or(*[ch_eq(T.at(p + i), cp) for cp in _UP[ch]]))
            g = b_and(*gs)
            return [(g, p + len(m))] if g is not False else []
        if isinstance(elem, pp.Literal):  # includes _SingleCharLiteral
            return self.lit(elem.match, p)
        if isinstance(elem, pp.Empty):
            return [(True, p)]
        if isinstance(elem, pp.And):
            cur = [(True, p)]
            for i, e in enumerate(elem.exprs):
                nxt = []
                for g0, p0 in cur:
                    for g1, p1 in self.rec(e, p0, pre=(i > 0)):
                        g = b_and(g0, g1)
                        if g is not False:
                            nxt.append((g, p1))
                cur = self.group(nxt)
                if not cur:
                    break
            return cur
        if isinstance(elem, pp.Or):
            alts = [self.rec(e, p) for e in elem.exprs]
            outs = []
            for i, alt in enumerate(alts):
                for g, e in alt:
                    # chosen iff no alt has a longer end, and no earlier alt has same end
                    blockers = []
                    for j, alt2 in enumerate(alts):
                        for g2, e2 in alt2:
                            if e2 > e or (e2 == e and j < i):
                                blockers.append(g2)
                    gg = b_and(g, b_not(b_or(*blockers)))
                    if gg is not False:
                        outs.append((gg, e))
            return outs
        if isinstance(elem, pp.MatchFirst):
            outs = []
            prior = []
            for e in elem.exprs:
                alt = self.rec(e, p)
                anyg = b_or(*[g for g, _ in alt])
                for g, en in alt:
                    gg = b_and(g, *[b_not(x) for x in prior])
                    if gg is not False:
                        outs.append((gg, en))
                if anyg is True:
                    break
                prior.append(anyg)
            return outs
        if isinstance(elem, pp.Opt):
            alt = self.rec(elem.expr, p, pre=False)
            anyg = b_or(*[g for g, _ in alt])
            return list(alt) + [(b_not(anyg), p)]
        if isinstance(elem, (pp.ZeroOrMore, pp.OneOrMore)):
            assert elem.not_ender is None
            first = self.rec(elem.expr, p, pre=False)
            outs = []
            if isinstance(elem, pp.ZeroOrMore):
                outs.append((b_not(b_or(*[g for g, _ in first])), p))
            cur = first
            guard_iter = 0
            while cur:
                nxt = []
                for g0, p0 in cur:
                    step = self.rec(elem.expr, p0)
                    anyg = b_or(*[g for g, _ in step])
                    outs.append((b_and(g0, b_not(anyg)), p0))
                    for g1, p1 in step:
                        if p1 == p0:
                            raise RuntimeError('non-terminating repetition in %r' % elem)
                        g = b_and(g0, g1)
                        if g is not False:
                            nxt.append((g, p1))
                cur = self.group(nxt)
                guard_iter += 1
            return outs
        if isinstance(elem, pp.Forward):
            return self.rec(elem.expr, p, pre=False)
        if isinstance(elem, (pp.ParseElementEnhance,)):
            # Combine, Suppress, Group, DelimitedList, TokenConverter...
            return self.rec(elem.expr, p, pre=False)
        raise NotImplementedError(type(elem))

    def full(self, elem):
        """guard that elem.parseString(text, parseAll=True) succeeds"""
        outs = self.rec(elem, 0)
        gs = []
        for g, e in outs:
            # parseAll: StringEnd after optional whitespace skipping (default white chars)
            se = pp.StringEnd()
            for g2, e2 in self.skipws(se, e):
                gs.append(b_and(g, g2, self.T.is_end(e2)))
        return b_or(*gs)


# ===========================================================================
# Value pass: follows one derivation at a time (decisions through the explorer) and calls the REAL parse actions.
from . import core
from .sstr import mks, SymStr, chars_of, Unsupported


class ParseFail(Exception):
    def __init__(self, loc, msg='no match'):
        Exception.__init__(self, msg)
        self.loc = loc
        self.msg = msg


def _decide(g):
    if g is True or g is False:
        return g
    return core.cur().decide(to_z3(g))


class SymParseException(pp.ParseException):
    """ParseException over a symbolic input: line/column are computed from the symbolic text by deciding, for each
    character before the failure location, whether it is a newline (exactly pyparsing's lineno()/col())."""

    def __init__(self, chars, loc, msg):
        Exception.__init__(self, msg)
        self._chars = list(chars)
        self.loc = loc
        self.msg = msg
        self.parser_element = None
        self.args = (None, loc, msg)
        self._lc = None

    def _linecol(self):
        if self._lc is None:
            line, last_nl = 1, -1
            for i, ch in enumerate(self._chars[:self.loc]):
                if _decide(ch == 10):
                    line += 1
                    last_nl = i
            # pyparsing.col(): 1 if loc is right after a newline, else loc - rfind('\n', 0, loc)
            col = self.loc - last_nl
            self._lc = (line, col)
        return self._lc

    @property
    def pstr(self):
        return mks([c for c in self._chars if not (isinstance(c, int) and c == -1)])

    @pstr.setter
    def pstr(self, v):
        pass

    @property
    def lineno(self):
        return self._linecol()[0]

    @property
    def col(self):
        return self._linecol()[1]

    column = col

    def __str__(self):
        l, c = self._linecol()
        return '%s  (at char %d), (line:%d, col:%d)' % (self.msg, self.loc, l, c)

    def __repr__(self):
        return str(self)


class Interp:
    def __init__(self, text):
        self.T = text
        self.R = Recognizer(text)
        self.instring = mks([c for c in text.c if not (isinstance(c, int) and c == -1)])

    def pick(self, outs, loc):
        for g, e in outs:
            if _decide(g):
                return e
        raise ParseFail(loc)

    def parse(self, elem, p, do_actions=True, pre=True):
        if pre and elem.callPreparse and elem.skipWhitespace:
            p = self.pick(self.R.skipws(elem, p), p)
        start = p
        end, toks = self.impl(elem, p, do_actions)
        toks = self.post(elem, toks)
        ret = pp.ParseResults(toks, elem.resultsName, asList=elem.saveAsList, modal=elem.modalResults)
        if elem.parseAction and (do_actions or elem.callDuringTry):
            for fn in elem.parseAction:
                try:
                    r = fn(self.instring, start, ret)
                except IndexError:
                    raise ParseFail(start, 'exception raised in parse action')
                if r is not None and r is not ret:
                    ret = pp.ParseResults(r, elem.resultsName,
                                          asList=elem.saveAsList and isinstance(r, (pp.ParseResults, list)),
                                          modal=elem.modalResults)
        return end, ret

    def post(self, elem, toks):
        if isinstance(elem, pp.Combine):
            parts = []

            def flat(t):
                for x in t:
                    if isinstance(x, (pp.ParseResults, list)):
                        flat(x)
                    else:
                        parts.append(x)
            flat(toks)
            chars = []
            for x in parts:
                chars.extend(chars_of(x))
            return [mks(chars)]
        if isinstance(elem, pp.Suppress):
            return []
        if isinstance(elem, pp.Group):
            return [toks]
        return toks

    def impl(self, elem, p, do_actions):
        R = self.R
        if isinstance(elem, (pp.Regex, pp.Literal, pp.CaselessLiteral, pp.Word)):
            e = self.pick(R.impl(elem, p), p)
            if isinstance(elem, pp.CaselessLiteral):
                return e, [elem.returnString]
            return e, [mks(self.T.c[p:e])]
        if isinstance(elem, pp.Empty):
            return p, []
        if isinstance(elem, pp.And):
            out = []
            for i, e in enumerate(elem.exprs):
                p, t = self.parse(e, p, do_actions, pre=(i > 0))
                out += list(self.items(t))
            return p, out
        if isinstance(elem, pp.Or):
            alts = [R.rec(e, p) for e in elem.exprs]
            cands = []
            for i, alt in enumerate(alts):
                for g, e in alt:
                    cands.append((e, i, g))
            matched = [(e, i) for (e, i, g) in sorted(cands, key=lambda c: (-c[0], c[1])) if _decide(g)]
            if not matched:
                raise ParseFail(p)
            last = None
            for e, i in matched:
                try:
                    return self.parse(elem.exprs[i], p, do_actions)
                except ParseFail as pf:
                    last = pf
            raise last
        if isinstance(elem, pp.MatchFirst):
            for e in elem.exprs:
                outs = R.rec(e, p)
                if _decide(b_or(*[g for g, _ in outs])):
                    return self.parse(e, p, do_actions)
            raise ParseFail(p)
        if isinstance(elem, pp.Opt):
            outs = R.rec(elem.expr, p, pre=False)
            if _decide(b_or(*[g for g, _ in outs])):
                e, t = self.parse(elem.expr, p, do_actions, pre=False)
                return e, list(self.items(t))
            return p, []
        if isinstance(elem, (pp.ZeroOrMore, pp.OneOrMore)):
            out = []
            first = True
            while True:
                outs = R.rec(elem.expr, p, pre=not first)
                if not _decide(b_or(*[g for g, _ in outs])):
                    if first and isinstance(elem, pp.OneOrMore):
                        raise ParseFail(p)
                    break
                p, t = self.parse(elem.expr, p, do_actions, pre=not first)
                out += list(self.items(t))
                first = False
            return p, out
        if isinstance(elem, (pp.Forward, pp.ParseElementEnhance)):
            e, t = self.parse(elem.expr, p, do_actions, pre=False)
            return e, list(self.items(t))
        raise NotImplementedError(type(elem))

    @staticmethod
    def items(t):
        return t._toklist if isinstance(t, pp.ParseResults) else t

    def parse_all(self, elem, parse_all=True):
        e, t = self.parse(elem, 0)
        if parse_all:
            se = pp.StringEnd()
            e2 = self.pick(self.R.skipws(se, e), e)
            if not _decide(self.T.is_end(e2)):
                raise ParseFail(e2, 'Expected end of text')
        return t


def expandtabs(chars):
    """str.expandtabs() (tab size 8; the column restarts after \\n and \\r) on symbolic characters"""
    out = []
    col = 0
    for ch in chars:
        if isinstance(ch, int):
            if ch == 9:
                n = 8 - (col % 8)
                out.extend([32] * n)
                col += n
            elif ch in (10, 13):
                out.append(ch)
                col = 0
            else:
                out.append(ch)
                col += 1
            continue
        if _decide(ch == 9):
            n = 8 - (col % 8)
            out.extend([32] * n)
            col += n
        elif _decide(z3.Or(ch == 10, ch == 13)):
            out.append(ch)
            col = 0
        else:
            out.append(ch)
            col += 1
    return out


def parse_string(elem, instring, parse_all=False):
    """ParserElement.parse_string on a symbolic input, with the real parse actions"""
    chars = chars_of(instring)
    if not elem.keepTabs:
        chars = expandtabs(chars)
    T = Text(chars + [-1])
    I = Interp(T)
    try:
        return I.parse_all(elem, parse_all)
    except ParseFail as pf:
        raise SymParseException(chars, pf.loc, pf.msg)
