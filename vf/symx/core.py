"""symx core: decision-log re-execution explorer with z3, SymInt/SymBool proxies.

The program under test runs natively.  A proxy asked for its truth value asks the
explorer; at a fresh symbolic branch both sides are checked for feasibility with
one incremental solver and the untaken feasible side is put on a work list.  A
path is identified by its decision log; exploration is exhaustive when the work
list empties.  Values needed concretely (list index, hash, str) are concretised
by forking over *all* feasible values (each value is a log entry), never by
silently picking one.
"""
import fractions
import os
import numbers
import time

import z3


class Unsupported(BaseException):
    """an operation on a symbolic value that has no shim: the path is inconclusive.
    BaseException so that `except Exception` in the code under test cannot swallow it; bare
    `except:` clauses are handled by the sticky flags on the explorer."""

    def __init__(self, msg=''):
        BaseException.__init__(self, msg)
        if EX is not None:
            EX._unsup = str(msg)


PATH_RESET = None        # optional callable run before every path (see make_module_resetter)


def make_module_resetter(prefix):
    """Every path of an exploration is one execution of the code under test from its initial state.  Module-level dict /
    list / set objects of the modules under `prefix` (memo tables, registries) would otherwise carry entries - possibly
    holding symbolic values of a finished path - from one path into the next.  Returns a callable restoring their contents
    to what they are now."""
    import sys
    snap = []
    for name, mod in list(sys.modules.items()):
        if mod is None or not (name == prefix or name.startswith(prefix + '.')):
            continue
        for attr, val in list(vars(mod).items()):
            if type(val) in (dict, list, set) and not attr.startswith('__'):
                snap.append((val, type(val)(val)))

    def reset():
        for live, saved in snap:          # unconditional (no comparisons: entries may hold symbolic values of a finished path)
            if isinstance(live, list):
                live[:] = saved
            else:
                live.clear()
                live.update(saved)
    return reset


class PathAbort(BaseException):
    """infeasible path / assumption failed"""

    def __init__(self, *a):
        BaseException.__init__(self, *a)
        if EX is not None:
            EX._abort = True


class Budget(BaseException):
    pass


class LogMismatch(BaseException):
    """the decision log does not fit the re-execution: the harness is not deterministic (engine fault)"""


EX = None  # current explorer (one per process)
SOLVER_KIND = os.environ.get('SYMX_SOLVER', 'default')
SAMPLE_LARGE_DOMAINS = True
# values always tried when a large-domain character has to be sampled: line terminators, quotes, backslash, comment and
# statement punctuation, a letter, a digit, NUL, a non-BMP character
INTERESTING = [10, 13, 34, 39, 92, 35, 59, 40, 41, 97, 48, 0, 0x2028, 0x1f600,
               # code points that Unicode normalisation or case mapping turns into ASCII metacharacters / letters or into more than one
               # character: U+1FEF -> `, U+212A -> K, U+037E -> ;, U+0958 (two characters under NFC), U+FF02 -> ", U+FF3C -> backslash (NFKC),
               # U+00DF (upper: SS), U+0130 (lower: two characters)
               0x1fef, 0x212a, 0x37e, 0x958, 0xff02, 0xff3c, 0xdf, 0x130]


def make_solver():
    if SOLVER_KIND == 'simple':
        return z3.SimpleSolver()
    if SOLVER_KIND == 'qflia':
        return z3.SolverFor('QF_LIA')
    return z3.Solver()



def cur():
    return EX


class Explorer:
    def __init__(self, timeout=None, max_paths=None, conc_limit=4096):
        self.solver = make_solver()
        self.timeout = timeout
        self.max_paths = max_paths
        self.conc_limit = conc_limit
        self.paths = 0
        self.aborted = 0
        self.checks = 0
        self.solver_time = 0.0
        self.unknowns = 0
        self.nontrivial = 0
        self.t0 = time.time()
        self.sampled = 0
        self._abort = False
        self._unsup = None

    # -- solver -----------------------------------------------------------
    def check(self, *extra):
        t0 = time.time()
        r = self.solver.check(*extra)
        self.solver_time += time.time() - t0
        self.checks += 1
        if r == z3.unknown:
            self.unknowns += 1
        return r

    def model(self):
        return self.solver.model()

    def add(self, c):
        self.solver.add(c)

    # -- decisions --------------------------------------------------------
    def _sticky(self):
        if self._abort:
            raise PathAbort()
        if self._unsup is not None:
            raise Unsupported(self._unsup)

    def decide(self, cond):
        if cond is True or cond is False:
            return cond
        self._sticky()
        cond = z3.simplify(cond)
        if z3.is_true(cond):
            return True
        if z3.is_false(cond):
            return False
        if self.pos < len(self.prefix):
            d = self.prefix[self.pos]
            if not (d is True or d is False):
                raise LogMismatch('decide() at %d found %r; trace so far %r' % (self.pos, d, self.trace[-6:]))
        else:
            self._tick()
            rt = self.check(cond)
            if rt == z3.unsat:
                rf = z3.sat          # the path itself is feasible, so the other side is
            else:
                rf = self.check(z3.Not(cond))
            can_t = rt == z3.sat
            can_f = rf == z3.sat
            if rt == z3.unknown or rf == z3.unknown:
                raise Unsupported('solver returned unknown on a branch condition')
            if can_t and can_f:
                self.work.append(list(self.trace) + [False])
                d = True
                self.symbolic_branches += 1
            elif can_t:
                d = True
            elif can_f:
                d = False
            else:
                raise PathAbort()
        self.trace.append(d)
        self.pos += 1
        self.solver.add(cond if d else z3.Not(cond))
        return d

    def assume(self, cond):
        """add a constraint without forking; abort the path if infeasible"""
        if cond is True:
            return
        if cond is False:
            raise PathAbort()
        self.solver.add(cond)
        if self.pos >= len(self.prefix):
            if self.check() != z3.sat:
                raise PathAbort()

    def domain_size_at_most(self, term, limit):
        """True iff `term` has at most `limit` feasible values on the current path (probe without forking)"""
        self.solver.push()
        try:
            for i in range(limit + 1):
                if i == 24:
                    # more than 24 values: is it an (almost) unconstrained character?  (efficiency only: a "large"
                    # answer sends the caller to the sampling fallback, which is reported as not exhaustive)
                    exotic = sum(1 for x in (0x2603, 0x4e2d, 0xac00, 0x1f600, 0xe000, 0x3b1) if self.check(term == x) == z3.sat)
                    if exotic >= 3:
                        return False
                if self.check() != z3.sat:
                    return True
                v = self.model().eval(term, model_completion=True)
                self.solver.add(term != v)
            return False
        finally:
            self.solver.pop()

    def concretize(self, term, limit=None):
        """fork over every feasible integer value of `term`"""
        term = z3.simplify(term)
        if z3.is_int_value(term):
            return term.as_long()
        self._sticky()
        if limit is not None and self.pos >= len(self.prefix):
            if not self.domain_size_at_most(term, limit):
                if not SAMPLE_LARGE_DOMAINS:
                    raise Unsupported('concretisation of a value with more than %d feasible values' % limit)
                return self.sample(term)
        elif limit is not None and self.pos < len(self.prefix) and isinstance(self.prefix[self.pos], tuple) and self.prefix[self.pos][0] == 'sample':
            return self.sample(term)
        if self.pos < len(self.prefix):
            e = self.prefix[self.pos]
            if not isinstance(e, tuple):
                raise LogMismatch('concretize() at %d found %r; trace so far %r' % (self.pos, e, self.trace[-6:]))
            if e[0] == 'sample':
                return self.sample(term)
            if e[0] == 'val':
                _, v, excl = e
            else:  # ('pick', excl): choose a new value outside excl
                excl = e[1]
                for x in excl:
                    self.solver.add(term != x)
                if len(excl) >= self.conc_limit:
                    raise Unsupported('concretisation of an unbounded value (> %d values)' % self.conc_limit)
                self._tick()
                if self.check() != z3.sat:
                    raise PathAbort()
                v = self.model().eval(term, model_completion=True).as_long()
                if self.check(term != v) == z3.sat:          # further values remain: continue the enumeration on another path
                    self.work.append(list(self.trace) + [('pick', excl + [v])])
                self.trace.append(('val', v, excl))
                self.pos += 1
                self.solver.add(term == v)
                self.symbolic_branches += 1
                return v
            for x in excl:
                self.solver.add(term != x)
        else:
            self._tick()
            if self.check() != z3.sat:
                raise PathAbort()
            v = self.model().eval(term, model_completion=True).as_long()
            excl = []
            if self.check(term != v) == z3.sat:              # not already pinned to a single value
                self.work.append(list(self.trace) + [('pick', [v])])
                self.symbolic_branches += 1
        self.trace.append(('val', v, excl))
        self.pos += 1
        self.solver.add(term == v)
        return v

    def sample(self, term, interesting=None):
        """NOT exhaustive: a value with a large domain reached code that needs it concretely (a C-level call without
        a shim).  The path continues on a few representative values (smallest, largest, and a few solver-chosen
        ones); such paths are counted in `sampled` and reported as not exhaustively decided."""
        if self.pos < len(self.prefix):
            e = self.prefix[self.pos]
            if not (isinstance(e, tuple) and e[0] == 'sample'):
                raise LogMismatch('sample() at %d found %r' % (self.pos, e))
            v = e[1]
        else:
            reps = []
            for iv in (interesting or INTERESTING):
                if len(reps) < 16 and self.check(term == iv) == z3.sat:
                    reps.append(iv)
            self.solver.push()
            try:
                for r0 in reps:
                    self.solver.add(term != r0)
                for extra in (None, 'lo', 'hi'):
                    for _ in range(3 if extra is None else 1):
                        if self.check() != z3.sat:
                            break
                        m = self.model()
                        v0 = m.eval(term, model_completion=True).as_long()
                        if extra == 'lo':
                            # walk down a few times
                            for _k in range(24):
                                if self.check(term < v0) != z3.sat:
                                    break
                                v0 = self.model().eval(term, model_completion=True).as_long()
                        if extra == 'hi':
                            for _k in range(24):
                                if self.check(term > v0) != z3.sat:
                                    break
                                v0 = self.model().eval(term, model_completion=True).as_long()
                        if v0 not in reps:
                            reps.append(v0)
                        self.solver.add(term != v0)
            finally:
                self.solver.pop()
            if not reps:
                raise PathAbort()
            v = reps[0]
            for other in reps[1:]:
                self.work.append(list(self.trace) + [('sample', other)])
            self.sampled += 1
        self.trace.append(('sample', v))
        self.pos += 1
        self.solver.add(term == v)
        return v

    def _tick(self):
        if self.timeout is not None and time.time() - self.t0 > self.timeout:
            raise Budget()

    # -- exploration ------------------------------------------------------
    def explore(self, fn, base=(), on_result=None, prefixes=None):
        """Run fn() over every feasible path.  fn returns a result; on_result(result, explorer)
        may return True to stop (counterexample found).  Returns status:
        'exhausted' | 'stopped' | 'budget'."""
        global EX
        EX = self
        self.work = [list(p) for p in (prefixes if prefixes is not None else [[]])]
        self.errors = []
        status = 'exhausted'
        try:
            while self.work:
                if self.max_paths is not None and self.paths >= self.max_paths:
                    status = 'budget'
                    break
                self.prefix = self.work.pop()
                self.trace = []
                self.pos = 0
                self.symbolic_branches = 0
                self._abort = False
                self._unsup = None
                self.solver.push()
                for c in base:
                    self.solver.add(c)
                try:
                    try:
                        if PATH_RESET is not None:
                            PATH_RESET()           # module-level containers of the code under test: every path starts from the same state
                        r = fn()
                    except Unsupported as e:
                        r = None
                    if self._abort:
                        raise PathAbort()      # swallowed by a bare except in the code under test
                    if self._unsup is not None:
                        self.errors.append('unsupported: %s' % self._unsup)
                        r = ('unsupported', self._unsup)
                    self.paths += 1
                    if self.symbolic_branches or len(self.trace):
                        self.nontrivial += 1
                    if on_result is not None and on_result(r, self):
                        status = 'stopped'
                        self.solver.pop()
                        break
                except PathAbort:
                    self.aborted += 1
                self.solver.pop()
        except Budget:
            status = 'budget'
            try:
                self.solver.pop()
            except Exception:
                pass
        return status

    def split(self, fn, base=(), depth=6):
        """Explore only down to `depth` decisions and return the list of decision
        prefixes (work items) that partition the path space - for parallel runs."""
        raise NotImplementedError


# ---------------------------------------------------------------------------
def _t(x):
    if isinstance(x, SymInt):
        return x.t
    if isinstance(x, SymBool):
        return z3.If(x.t, 1, 0)
    if isinstance(x, bool):
        return 1 if x else 0
    if isinstance(x, int):
        return x
    return None


class SymBool:
    __slots__ = ('t',)

    def __init__(self, t):
        self.t = t

    def __bool__(self):
        return EX.decide(self.t)

    def __eq__(self, o):
        if isinstance(o, SymBool):
            return mkbool(self.t == o.t)
        if isinstance(o, bool):
            return mkbool(self.t if o else z3.Not(self.t))
        return bool(self) == o

    def __ne__(self, o):
        r = self.__eq__(o)
        return mkbool(z3.Not(r.t)) if isinstance(r, SymBool) else (not r)

    def __hash__(self):
        return hash(bool(self))

    def __repr__(self):
        return repr(bool(self))

    def __int__(self):
        return int(bool(self))

    def __index__(self):
        return int(bool(self))

    def __and__(self, o):
        return bool(self) & o

    def __or__(self, o):
        return bool(self) | o

    def __invert__(self):
        return ~int(bool(self))

    def __add__(self, o):
        return int(bool(self)) + o

    __radd__ = __add__


def mkbool(t):
    if t is True or t is False:
        return t
    if isinstance(t, SymBool):
        return t
    t = z3.simplify(t)
    if z3.is_true(t):
        return True
    if z3.is_false(t):
        return False
    return SymBool(t)


class SymInt:
    __slots__ = ('t',)

    def __init__(self, t):
        self.t = t

    # concretising conversions (forking, exhaustive)
    def __index__(self):
        return EX.concretize(self.t)

    __int__ = __index__

    def __hash__(self):
        return hash(EX.concretize(self.t))

    def __repr__(self):
        return repr(EX.concretize(self.t))

    __str__ = __repr__

    def __format__(self, spec):
        return format(EX.concretize(self.t), spec)

    def __float__(self):
        return float(EX.concretize(self.t))

    def __bool__(self):
        return EX.decide(self.t != 0)

    def conc(self):
        return EX.concretize(self.t)

    # comparisons
    def _cmp(self, o, f):
        ot = _t(o)
        if ot is None:
            if isinstance(o, float):
                if o != o or o in (float('inf'), float('-inf')):
                    return f(0, o)              # any int compares with nan/inf like 0 does
                return mkbool(f(z3.ToReal(self.t), z3.RealVal(str(fractions.Fraction(o)))))
            return NotImplemented
        return mkbool(f(self.t, ot))

    def __eq__(self, o):
        return self._cmp(o, lambda a, b: a == b)      # NotImplemented for foreign types: Python tries the reflected method

    def __ne__(self, o):
        return self._cmp(o, lambda a, b: a != b)

    def __lt__(self, o):
        return self._cmp(o, lambda a, b: a < b)

    def __le__(self, o):
        return self._cmp(o, lambda a, b: a <= b)

    def __gt__(self, o):
        return self._cmp(o, lambda a, b: a > b)

    def __ge__(self, o):
        return self._cmp(o, lambda a, b: a >= b)

    # arithmetic (linear fragment symbolic, the rest concretised)
    def _ar(self, o, f, nat):
        ot = _t(o)
        if ot is None:
            if isinstance(o, SymReal):
                return SymReal(f(z3.ToReal(self.t), o.t))
            if isinstance(o, float) and o == o and o not in (float('inf'), float('-inf')):
                return SymReal(f(z3.ToReal(self.t), _rv(o)))     # exact rational arithmetic (no IEEE rounding claimed)
            if isinstance(o, float):
                return nat(0, o)          # +/- with nan or an infinity: the result does not depend on the integer
            if isinstance(o, complex):
                return nat(EX.concretize(self.t), o)
            return NotImplemented
        return SymInt(f(self.t, ot))

    def __add__(self, o):
        return self._ar(o, lambda a, b: a + b, lambda a, b: a + b)

    def __radd__(self, o):
        return self._ar(o, lambda a, b: b + a, lambda a, b: b + a)

    def __sub__(self, o):
        return self._ar(o, lambda a, b: a - b, lambda a, b: a - b)

    def __rsub__(self, o):
        return self._ar(o, lambda a, b: b - a, lambda a, b: b - a)

    def __neg__(self):
        return SymInt(-self.t)

    def __pos__(self):
        return self

    def __abs__(self):
        return SymInt(z3.If(self.t >= 0, self.t, -self.t))

    def __mul__(self, o):
        if isinstance(o, (SymInt, SymBool)):
            o = int(o)
        if isinstance(o, int):
            return SymInt(self.t * o)
        if isinstance(o, (float, complex)):
            return EX.concretize(self.t) * o
        return NotImplemented

    __rmul__ = __mul__

    def _conc2(self, o, f):
        a = EX.concretize(self.t)
        b = int(o) if isinstance(o, (SymInt, SymBool)) else o
        return f(a, b)

    def __floordiv__(self, o):
        return self._conc2(o, lambda a, b: a // b)

    def __rfloordiv__(self, o):
        return self._conc2(o, lambda a, b: b // a)

    def __truediv__(self, o):
        return self._conc2(o, lambda a, b: a / b)

    def __rtruediv__(self, o):
        return self._conc2(o, lambda a, b: b / a)

    def __mod__(self, o):
        return self._conc2(o, lambda a, b: a % b)

    def __rmod__(self, o):
        return self._conc2(o, lambda a, b: b % a)

    def __divmod__(self, o):
        return self._conc2(o, lambda a, b: divmod(a, b))

    def __pow__(self, o, m=None):
        return self._conc2(o, lambda a, b: pow(a, b, m))

    def __rpow__(self, o):
        return self._conc2(o, lambda a, b: pow(b, a))

    def __lshift__(self, o):
        return self._conc2(o, lambda a, b: a << b)

    def __rshift__(self, o):
        return self._conc2(o, lambda a, b: a >> b)

    def __and__(self, o):
        return self._conc2(o, lambda a, b: a & b)

    def __or__(self, o):
        return self._conc2(o, lambda a, b: a | b)

    def __xor__(self, o):
        return self._conc2(o, lambda a, b: a ^ b)

    def __invert__(self):
        return SymInt(-self.t - 1)


def _rv(x):
    return z3.RealVal(str(fractions.Fraction(x)))


class SymReal:
    """a real-valued term arising from int (op) float arithmetic; exact rationals, not IEEE doubles"""
    __slots__ = ('t',)

    def __init__(self, t):
        self.t = t

    @staticmethod
    def _rt(o):
        if isinstance(o, SymReal):
            return o.t
        if isinstance(o, SymInt):
            return z3.ToReal(o.t)
        if isinstance(o, bool):
            return z3.RealVal(1 if o else 0)
        if isinstance(o, int):
            return z3.RealVal(o)
        if isinstance(o, float) and o == o and o not in (float('inf'), float('-inf')):
            return _rv(o)
        return None

    def _cmp(self, o, f):
        ot = self._rt(o)
        if ot is None:
            if isinstance(o, float):
                return f(0.0, o)
            return NotImplemented
        return mkbool(f(self.t, ot))

    def __eq__(self, o):
        return self._cmp(o, lambda a, b: a == b)

    def __ne__(self, o):
        return self._cmp(o, lambda a, b: a != b)

    def __lt__(self, o):
        return self._cmp(o, lambda a, b: a < b)

    def __le__(self, o):
        return self._cmp(o, lambda a, b: a <= b)

    def __gt__(self, o):
        return self._cmp(o, lambda a, b: a > b)

    def __ge__(self, o):
        return self._cmp(o, lambda a, b: a >= b)

    def _ar(self, o, f):
        ot = self._rt(o)
        if ot is None:
            if isinstance(o, float):
                return f(0.0, o)      # nan/inf absorb any finite value
            return NotImplemented
        return SymReal(f(self.t, ot))

    def __add__(self, o):
        return self._ar(o, lambda a, b: a + b)

    __radd__ = __add__

    def __sub__(self, o):
        return self._ar(o, lambda a, b: a - b)

    def __rsub__(self, o):
        return self._ar(o, lambda a, b: b - a)

    def __neg__(self):
        return SymReal(-self.t)

    def __abs__(self):
        return SymReal(z3.If(self.t >= 0, self.t, -self.t))

    def __bool__(self):
        return EX.decide(self.t != 0)

    def __hash__(self):
        raise Unsupported('hash of a symbolic real')

    def __float__(self):
        raise Unsupported('float() of a symbolic real')

    def __repr__(self):
        raise Unsupported('repr of a symbolic real')


numbers.Real.register(SymReal)
numbers.Integral.register(SymInt)

_counter = [0]


def fresh_int(name='i'):
    _counter[0] += 1
    return SymInt(z3.Int('%s!%d' % (name, _counter[0])))


def fresh_bool(name='b'):
    _counter[0] += 1
    return SymBool(z3.Bool('%s!%d' % (name, _counter[0])))
