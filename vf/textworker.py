"""Worker process for the text-pipeline properties (C01, C02, C04, C06, C07, C08): loads hszinc from the
repository under test through the instrumenting import hook, builds a grid whose payload of one kind at one
position is symbolic, runs the REAL dump and parse code and asks z3 for a payload that breaks the assertion.

    python -m vf.textworker '<job json>'   ->   one line  TEXT-RESULT <json>
"""
import contextlib
import io
import json
import sys
import time
import traceback
import warnings

warnings.simplefilter('ignore')
try:
    import z3
    from .symx import core, sstr, instr
    from .symx.sstr import SymStr, mks
    from .symx.symre import b_and, b_or, b_not, to_z3
except ImportError:          # plain-CPython replay (no solver installed there): concrete fallbacks
    z3 = None

    class SymStr(object):
        def __init__(self, s):
            self.s = s if isinstance(s, str) else s.s

        def eq_term(self, o):
            return str.__eq__(str(self.s), str(o.s if isinstance(o, SymStr) else o))

    def b_and(*xs):
        return all(x is True for x in xs)

    def b_or(*xs):
        return any(x is True for x in xs)

    def b_not(x):
        return not x

    def to_z3(x):
        return x

from . import common


def fz(x):
    return to_z3(x)


class Ctx:
    pass


def load():
    hz = instr.install(common.REPO)
    if z3 is not None:
        from .symx import core as _core
        _core.PATH_RESET = _core.make_module_resetter('hszinc')
    return hz


_REF = {}


def zinc_ref(symbolic=True):
    """the independent reference reader; instrumented when it has to run on symbolic text"""
    key = 'sym' if symbolic else 'plain'
    if key not in _REF:
        import os
        path = os.path.join(os.path.dirname(os.path.abspath(__file__)), 'spec', 'zinc_ref.py')
        if symbolic and z3 is not None:
            _REF[key] = instr.load_instrumented(path, 'symref_pkg.zinc_ref')
        else:
            import importlib
            _REF[key] = importlib.import_module('vf.spec.zinc_ref')
    return _REF[key]


def json_ref(symbolic=True):
    key = 'jsym' if symbolic else 'jplain'
    if key not in _REF:
        import os
        path = os.path.join(os.path.dirname(os.path.abspath(__file__)), 'spec', 'json_ref.py')
        if symbolic and z3 is not None:
            zinc_ref(True)
            _REF[key] = instr.load_instrumented(path, 'symref_pkg.json_ref')
        else:
            import importlib
            _REF[key] = importlib.import_module('vf.spec.json_ref')
    return _REF[key]


def json_writer_vs_reference(hz, g, multi, symbolic):
    """C06: the JSON-ready tree of the real writer, decoded by the independent reference decoder"""
    from . import neutral
    ref = json_ref(symbolic)
    jd = sys.modules['hszinc.jsondumper']
    if symbolic:
        tree = [jd._dump_grid_to_json(g), jd._dump_grid_to_json(g)] if multi else jd._dump_grid_to_json(g)
    else:
        tree = json.loads(hz.dump([g, g] if multi else g, mode=hz.MODE_JSON))     # the real JSON text must itself be valid JSON
    if multi:
        if not isinstance(tree, list) or len(tree) != 2:
            return 'a list of grids is not written as a JSON array of two grid objects', True
    shape = check_json_shape(tree[0] if multi else tree, str(g.version))
    if shape is not None:
        return shape, True
    try:
        trees = ref.decode_document(tree)
    except ref.RefReject as e:
        return 'the reference decoder rejects the output (%s)' % e, True
    want = neutral.to_neutral(hz, g)
    f = True
    for t in trees:
        f = b_and(f, neutral.same(want, t, dict(ordered_dict=False, six_decimals=True)))
    if f is False:
        return 'the reference decoder recovers a different grid', True
    return None, f


def check_json_shape(tree, version):
    if not isinstance(tree, dict) or sorted(tree.keys()) != ['cols', 'meta', 'rows']:
        return 'grid object keys are not exactly meta/cols/rows'
    if not isinstance(tree['meta'], dict) or tree['meta'].get('ver') != version:
        return 'meta.ver is not the declared version %r' % version
    if not isinstance(tree['cols'], list) or not all(isinstance(c, dict) and isinstance(c.get('name'), str) for c in tree['cols']):
        return 'cols is not a list of objects with a name'
    if not isinstance(tree['rows'], list) or not all(isinstance(r, dict) for r in tree['rows']):
        return 'rows is not a list of objects'
    # version-dependent spelling of Remove
    bad = '-:' if version.startswith('2') else 'x:'

    def scan(t):
        if isinstance(t, dict):
            return any(scan(x) for x in t.values())
        if isinstance(t, list):
            return any(scan(x) for x in t)
        return isinstance(t, str) and t == bad
    if scan(tree):
        return 'Remove written as %r in a ver %s document' % (bad, version)
    return None


def writer_vs_reference(hz, g, multi, symbolic):
    """C04: dump with the real ZINC writer, read with the independent reference reader, compare.
    -> (None | message, formula-or-True)"""
    from . import neutral
    ref = zinc_ref(symbolic)
    txt = hz.dump([g, g] if multi else g, mode=hz.MODE_ZINC)
    if len(txt) == 0 or not (txt[-1] == '\n'):
        return 'document does not end with a newline', True
    try:
        trees = ref.parse_document(txt)
    except ref.RefReject as e:
        return 'the reference reader rejects the text (%s)' % e, True
    if len(trees) != (2 if multi else 1):
        return 'reference reader sees %d grids' % len(trees), True
    want = neutral.to_neutral(hz, g)
    f = True
    for t in trees:
        f = b_and(f, neutral.same(want, t, dict(ordered_dict=True)))
    if f is False:
        return 'the reference reader recovers a different grid', True
    return None, f


# ---------------------------------------------------------------------------
# structural comparison of two values (original vs read back) as a formula
def same(hz, a, b, opts):
    """-> True / False / z3 formula: same kind and same content"""
    D = hz.datatypes if hasattr(hz, 'datatypes') else sys.modules['hszinc.datatypes']
    Grid = hz.Grid
    if type(a).__name__ == 'SymBool':
        a = bool(a)
    if type(b).__name__ == 'SymBool':
        b = bool(b)
    if a is None or b is None:
        return a is None and b is None
    for S in (D.MARKER, D.NA, D.REMOVE):
        if a is S or b is S:
            return a is b
    if isinstance(a, bool) or isinstance(b, bool):
        return isinstance(a, bool) and isinstance(b, bool) and a == b
    if isinstance(a, D.Uri) or isinstance(b, D.Uri):
        return isinstance(a, D.Uri) and isinstance(b, D.Uri) and SymStr(a).eq_term(b)
    if isinstance(a, D.Bin) or isinstance(b, D.Bin):
        return isinstance(a, D.Bin) and isinstance(b, D.Bin) and SymStr(a).eq_term(b)
    if isinstance(a, (str, SymStr)) or isinstance(b, (str, SymStr)):
        if not (isinstance(a, (str, SymStr)) and isinstance(b, (str, SymStr))):
            return False
        return SymStr(a).eq_term(b)
    if isinstance(a, D.Ref) or isinstance(b, D.Ref):
        if not (isinstance(a, D.Ref) and isinstance(b, D.Ref)):
            return False
        if bool(a.has_value) != bool(b.has_value):
            return False
        return b_and(same(hz, a.name, b.name, opts), same(hz, a.value, b.value, opts))
    if isinstance(a, D.XStr) or isinstance(b, D.XStr):
        if not (isinstance(a, D.XStr) and isinstance(b, D.XStr)):
            return False
        da, db = a.data, b.data
        if isinstance(da, (bytes, bytearray)) or isinstance(db, (bytes, bytearray)):
            return isinstance(da, (bytes, bytearray)) and isinstance(db, (bytes, bytearray)) and bytes(da) == bytes(db) \
                and same(hz, a.encoding, b.encoding, opts) is True
        return b_and(same(hz, a.encoding, b.encoding, opts), same(hz, da, db, opts))
    if isinstance(a, D.Coordinate) or isinstance(b, D.Coordinate):
        if not (isinstance(a, D.Coordinate) and isinstance(b, D.Coordinate)):
            return False
        return abs(a.latitude - b.latitude) < 1e-6 and abs(a.longitude - b.longitude) < 1e-6
    # a Quantity without unit and a plain number are the same Haystack Number
    if isinstance(a, D.Qty) and not a.unit:
        a = a.value
    if isinstance(b, D.Qty) and not b.unit:
        b = b.value
    if isinstance(a, D.Qty) or isinstance(b, D.Qty):
        if not (isinstance(a, D.Qty) and isinstance(b, D.Qty)):
            return False
        return b_and(num_same(a.value, b.value, opts), same(hz, a.unit if a.unit else None, b.unit if b.unit else None, opts))
    if isinstance(a, (int, float)) or isinstance(b, (int, float)):
        if not (isinstance(a, (int, float)) and isinstance(b, (int, float))):
            return False
        return num_same(a, b, opts)
    import datetime
    if isinstance(a, datetime.datetime) or isinstance(b, datetime.datetime):
        if not (isinstance(a, datetime.datetime) and isinstance(b, datetime.datetime)):
            return False
        if opts.get('zone_names', True):
            Z = sys.modules['hszinc.zoneinfo']
            # zone identity as the zone database sees it (independent of hszinc's own naming function): a value sent in
            # Europe/London must not come back in UTC even where both have offset zero
            za, zb = getattr(a.tzinfo, 'zone', None), getattr(b.tzinfo, 'zone', None)
            if za is not None and zb is not None and za != zb and not _same_zone_rules(a.tzinfo, b.tzinfo):
                return False
            try:
                if Z.timezone_name(a) != Z.timezone_name(b):      # same Haystack zone name (the map itself is C17's subject)
                    return False
            except ValueError:
                return False
        return a == b and a.utcoffset() == b.utcoffset() and a.replace(tzinfo=None) == b.replace(tzinfo=None)
    if isinstance(a, (datetime.date, datetime.time)) or isinstance(b, (datetime.date, datetime.time)):
        return type(a) is type(b) and a == b
    if isinstance(a, list) or isinstance(b, list):
        if not (isinstance(a, list) and isinstance(b, list)) or len(a) != len(b):
            return False
        return b_and(*[same(hz, x, y, opts) for x, y in zip(a, b)])
    if isinstance(a, Grid) or isinstance(b, Grid):
        if not (isinstance(a, Grid) and isinstance(b, Grid)):
            return False
        return same_grid(hz, a, b, opts)
    if isinstance(a, dict) or isinstance(b, dict):
        if not (isinstance(a, dict) and isinstance(b, dict)):
            return False
        ka, kb = list(a.keys()), list(b.keys())
        from . import neutral as _n
        if sorted(map(_n.plain, ka)) != sorted(map(_n.plain, kb)):      # keys were hashed, so they are pinned on this path
            return False
        return b_and(*[same(hz, a[k], b[k], opts) for k in ka])
    return False


def num_same(x, y, opts):
    if x != x or y != y:
        return (x != x) and (y != y)
    if opts.get('six_decimals'):
        if x == y:
            return True
        if x in (float('inf'), float('-inf')) or y in (float('inf'), float('-inf')):
            return False
        return abs(x - y) <= 5.1e-7
    return x == y


def meta_items(m):
    return list(m.items())


def same_meta(hz, m1, m2, opts):
    i1, i2 = meta_items(m1), meta_items(m2)
    if len(i1) != len(i2):
        return False
    out = []
    if opts.get('ordered_meta', True):
        for (k1, v1), (k2, v2) in zip(i1, i2):
            out.append(same(hz, k1, k2, opts))
            out.append(same(hz, v1, v2, opts))
    else:
        d2 = dict(i2)
        for k1, v1 in i1:
            if k1 not in d2:
                return False
            out.append(same(hz, v1, d2[k1], opts))
    return b_and(*out)


def same_grid(hz, g1, g2, opts):
    v1, v2 = type(g1.version).__str__(g1.version), type(g2.version).__str__(g2.version)
    vsame = (v1 == v2) if (isinstance(v1, str) and isinstance(v2, str)) else SymStr(v1).eq_term(v2)
    if vsame is False:
        return False
    if len(g1) != len(g2):
        return False
    if list(g1.column.keys()) != list(g2.column.keys()):
        return False
    out = [vsame, same_meta(hz, g1.metadata, g2.metadata, opts)]
    for c in g1.column.keys():
        out.append(same_meta(hz, g1.column[c], g2.column[c], opts))
    for r1, r2 in zip(g1, g2):
        for c in g1.column.keys():
            out.append(same(hz, r1.get(c), r2.get(c), opts))
        extra = [k for k in r2.keys() if k not in g1.column]
        if extra:
            return False
    return b_and(*out)


def _same_zone_rules(z1, z2):
    """two zone-database zones with different names are the same zone iff their rules coincide (aliases such as UTC / Etc/UTC)"""
    t1, t2 = getattr(z1, '_utc_transition_times', None), getattr(z2, '_utc_transition_times', None)
    if (t1 is None) != (t2 is None):
        return False
    if t1 is None:
        return getattr(z1, '_utcoffset', 1) == getattr(z2, '_utcoffset', 2)
    return list(t1) == list(t2) and [tuple(i) for i in z1._transition_info] == [tuple(i) for i in z2._transition_info]


# ---------------------------------------------------------------------------
# payload kinds (what is symbolic) and positions (where it sits)
REFCHARS = [[48, 57], [65, 90], [97, 122], [95, 95], [58, 58], [45, 46], [126, 126]]
UNITCHARS = [[65, 90], [97, 122], [37, 37], [95, 95], [47, 47], [36, 36], [0x80, 0xfffe]]
BINCHARS = [[0x20, 0x27], [0x2a, 0x7e]]
XTYPECHARS = [[48, 57], [65, 90], [97, 122], [95, 95]]
ALPHABET = {'refname': REFCHARS, 'unit': UNITCHARS, 'bin': BINCHARS, 'xstrtype': XTYPECHARS, 'refname_dis': REFCHARS}
MIN_LEN = {'refname': 1, 'unit': 1, 'xstrtype': 1, 'refname_dis': 1}


def make_payload(hz, kind, s):
    D = sys.modules['hszinc.datatypes']
    if kind == 'xstrtype':
        try:
            return D.XStr(s, 'pay"load')
        except ValueError:
            # the type names hex / b64 demand an encoded payload: XStr(type, 'pay"load') is not a value (outside the domain)
            from .symx import core as _core
            raise _core.PathAbort()
    if kind == 'refname_dis':
        return D.Ref(s, 'a "b"')
    if kind == 'str':
        return s
    if kind == 'uri':
        return D.Uri(s)
    if kind == 'refdis':
        return D.Ref('abc', s)
    if kind == 'xstr':
        return D.XStr('mytype', s)
    if kind == 'refname':
        return D.Ref(s)
    if kind == 'bin':
        return D.Bin(s)
    if kind == 'unit':
        return D.Quantity(1.5, s)
    raise ValueError(kind)


NEIGHBOUR_BEFORE = 11
NEIGHBOUR_AFTER = 'zz"z'


def build_grid(hz, position, value, version, value2=None, reorder=None):
    """2 columns x 2 rows skeleton with concrete neighbours of other kinds; `value` placed at `position`"""
    D = sys.modules['hszinc.datatypes']
    meta = [('dis', 'meta, "x"')]
    if position == 'gridmeta':
        meta.append(('pay', value))
    meta.append(('mk', D.MARKER))
    colmeta = [('unit', 'kW')]
    if position == 'colmeta':
        colmeta.append(('pay', value))
    colmeta.append(('last', NEIGHBOUR_BEFORE))
    g = hz.Grid(version=version, metadata=dict(meta), columns=[('c1', []), ('c2', colmeta)])
    cell = NEIGHBOUR_BEFORE
    if position == 'cell':
        cell = value
    elif position == 'list':
        cell = [NEIGHBOUR_BEFORE, value, NEIGHBOUR_AFTER]
    elif position == 'dict':
        cell = {'ka': NEIGHBOUR_BEFORE, 'pay': value, 'kz': NEIGHBOUR_AFTER}
    elif position == 'nested':
        ng = hz.Grid(version=version)
        ng.column['n1'] = {}
        ng.column['n2'] = {}
        ng.append({'n1': value, 'n2': NEIGHBOUR_AFTER})
        ng.append({'n1': NEIGHBOUR_BEFORE})
        cell = ng
    g.append({'c1': NEIGHBOUR_BEFORE, 'c2': NEIGHBOUR_AFTER})
    g.append({'c1': cell, 'c2': NEIGHBOUR_AFTER if value2 is None else value2})      # value2: a second symbolic payload in the adjacent cell
    g.append({'c2': D.MARKER})
    if reorder is not None:
        # columns / metadata / column metadata put in another order after they were created (positioned insert, relocation,
        # reverse, sort): the documented order is the map's order, not the order of creation
        if reorder == 0:
            g.column.add_item('c2', g.column['c2'], index=0)
        elif reorder == 1:
            g.column.reverse()
            g.metadata.reverse()
        elif reorder == 2:
            g.metadata.sort()
            g.column['c2'].sort()
        elif reorder == 3:
            g.column['c2'].add_item('last', g.column['c2']['last'], pos_key='unit')
            g.metadata.add_item('mk', D.MARKER, index=0)
        else:
            g.column.add_item('c0', hz.MetadataObject() if hasattr(hz, 'MetadataObject') else {}, pos_key='c2')
            g.metadata.add_item('first', 1, index=0)
    return g


def expected_shape(position):
    return dict(grids=1, rows=3, cols=2)


# ---------------------------------------------------------------------------
def dump_parse(hz, g, fmt, multi=False):
    """the observed pipeline.  ZINC: hszinc.dump -> hszinc.parse (text).  JSON: the writer's JSON-ready tree
    (jsondumper._dump_grid_to_json) -> hszinc.parse(tree) - the JSON text layer (json.dumps/json.loads) is CPython's
    and is assumed to be an inverse pair on str/list/dict/None/bool/float trees."""
    if fmt == 'zinc':
        if multi:
            txt = hz.dump([g, g], mode=hz.MODE_ZINC)
            return hz.parse(txt, mode=hz.MODE_ZINC, single=False), txt
        txt = hz.dump(g, mode=hz.MODE_ZINC)
        return hz.parse(txt, mode=hz.MODE_ZINC), txt
    jd = sys.modules['hszinc.jsondumper']
    if multi:
        tree = [jd._dump_grid_to_json(g), jd._dump_grid_to_json(g)]
        return hz.parse(tree, mode=hz.MODE_JSON, single=False), tree
    tree = jd._dump_grid_to_json(g)
    return hz.parse(tree, mode=hz.MODE_JSON), tree


def char_domain(ex, c, dom):
    ex.assume(z3.And(c >= 0, c <= 0x10ffff, z3.Or(c < 0xd800, c > 0xdfff)))   # code points, no lone surrogates
    if dom:
        ex.assume(z3.Or(*[z3.And(c >= lo, c <= hi) for lo, hi in dom]))


def run_job(job):
    hz = load()
    fmt, kind, position, version, N = job['fmt'], job['kind'], job['position'], job['version'], job['N']
    split = job.get('split')        # list of [lo, hi] ranges for the first character (domain splitting for parallelism)
    exclude = job.get('exclude', [])  # known-finding regions: list of {'chars': [[lo,hi],...]} excluded from every char
    assertion = job.get('assert', 'roundtrip')
    multi = job.get('multi', False)
    opts = dict(six_decimals=(fmt == 'json'), ordered_meta=True)
    ex = core.Explorer(timeout=job.get('timeout', 300))
    found = {}
    stats = dict(reached=0, samples=[])

    def body():
        cs = [z3.Int('c%d' % i) for i in range(N)]
        for i, c in enumerate(cs):
            char_domain(ex, c, split if (i == 0 and split) else None)
            if kind in ALPHABET:
                ex.assume(z3.Or(*[z3.And(c >= lo, c <= hi) for lo, hi in ALPHABET[kind]]))
            if job.get('alphabet'):
                ex.assume(z3.Or(*[c == ord(ch) for ch in job['alphabet']]))
            if kind == 'xstrtype' and i == 0:
                ex.assume(z3.Or(z3.And(c >= 65, c <= 90), z3.And(c >= 97, c <= 122)))   # a type name starts with a letter
            if kind == 'unit' and i == 0:
                ex.assume(c != 95)      # a unit cannot start with '_' in ZINC: the digits production owns it (not a representable value)
            for reg in exclude:
                ex.assume(z3.Not(z3.Or(*[z3.And(c >= lo, c <= hi) for lo, hi in reg['chars']])))
        s = SymStr(cs) if N else ''
        ds = []
        if job.get('kind2'):
            ds = [z3.Int('d%d' % i) for i in range(job.get('N2', 1))]
            for d in ds:
                char_domain(ex, d, None)
                if job.get('alphabet'):
                    ex.assume(z3.Or(*[d == ord(ch) for ch in job['alphabet']]))

        def model():
            if ex.check() != z3.sat:
                return None
            m = ex.model()
            p1 = ''.join(chr(m.eval(c, model_completion=True).as_long()) for c in cs)
            if ds:
                return [p1, ''.join(chr(m.eval(d, model_completion=True).as_long()) for d in ds)]
            return p1
        value = make_payload(hz, kind, s)
        value2 = make_payload(hz, job['kind2'], SymStr(ds)) if ds else None
        g = build_grid(hz, position, value, version, value2)
        if assertion in ('zincref', 'jsonref'):
            try:
                with contextlib.redirect_stdout(io.StringIO()):
                    msg, f = (writer_vs_reference if assertion == 'zincref' else json_writer_vs_reference)(hz, g, multi, True)
            except Exception as e:
                return ('cex', 'writer raised %s' % type(e).__name__, model())
            stats['reached'] += 1
            if msg is not None:
                return ('cex', msg, model())
            if f is not True and ex.check(z3.Not(fz(f))) == z3.sat:
                ex.add(z3.Not(fz(f)))
                return ('cex', 'the reference reader recovers a different grid', model())
            if len(stats['samples']) < 2:
                stats['samples'].append(model())
            return ('ok',)
        try:
            with contextlib.redirect_stdout(io.StringIO()):
                back, wire = dump_parse(hz, g, fmt, multi)
        except Exception as e:
            return ('cex', 'raised %s' % type(e).__name__, model())
        stats['reached'] += 1
        grids = back if multi else [back]
        if multi and len(grids) != 2:
            return ('cex', 'grid count %d' % len(grids), model())
        for b in grids:
            if not isinstance(b, hz.Grid):
                return ('cex', 'not a grid', model())
            if len(b) != len(g) or list(b.column.keys()) != list(g.column.keys()):
                return ('cex', 'shape rows=%d cols=%r' % (len(b), list(b.column.keys())), model())
            f = same_grid(hz, g, b, opts)
            if f is False:
                return ('cex', 'content differs', model())
            if f is not True:
                if ex.check(z3.Not(fz(f))) == z3.sat:
                    ex.add(z3.Not(fz(f)))
                    return ('cex', 'content differs', model())
        if len(stats['samples']) < 2:
            stats['samples'].append(model())
        return ('ok',)

    def on_result(r, ex):
        if r and r[0] == 'cex':
            found['cex'] = r
            return True
        return False

    t0 = time.time()
    status = ex.explore(body, on_result=on_result)
    out = dict(job=job, status=status, paths=ex.paths, aborted=ex.aborted, reached=stats['reached'], checks=ex.checks,
               solver_s=round(ex.solver_time, 2), wall_s=round(time.time() - t0, 2), errors=ex.errors[:5],
               samples=stats['samples'], functions=sorted(instr.CALLED)[:200], nontrivial=ex.nontrivial)
    if 'cex' in found:
        out['cex'] = dict(what=found['cex'][1], payload=found['cex'][2])
    return out


def catalogue(hz, version, extra=None):
    """boundary values of every non-text kind (concrete configurations; nothing symbolic)"""
    import datetime
    import pytz
    D = sys.modules['hszinc.datatypes']
    Z = sys.modules['hszinc.zoneinfo']
    v3 = version.startswith('3')
    vals = [True, False, D.MARKER, D.REMOVE, 0, 1, -1, 7.5, -0.0, 1e20, 1e-7, 5e-324, 1.7976931348623157e308, 2 ** 53, -123456.789,
            float('inf'), float('-inf'), float('nan'),
            D.Quantity(1.5, 'kW'), D.Quantity(-3, u'\u00b0C'), D.Quantity(2, '%'), D.Quantity(1, '$'), D.Quantity(1e-7, 'm/s'),
            D.Quantity(1.5, None), D.Quantity(2.0, ''),
            datetime.date(2020, 2, 29), datetime.date(1, 1, 1), datetime.date(9999, 12, 31), datetime.date(999, 12, 31), datetime.date(1000, 1, 1),
            datetime.time(0, 0, 0), datetime.time(23, 59, 59, 999999), datetime.time(1, 2, 3, 500000), datetime.time(12, 30),
            pytz.utc.localize(datetime.datetime(2020, 1, 1, 0, 0, 0)),
            Z.timezone('Paris').localize(datetime.datetime(2021, 7, 1, 12, 30, 15, 250000)),
            Z.timezone('New_York').localize(datetime.datetime(2021, 1, 1, 23, 59, 59)),
            Z.timezone('Kolkata').localize(datetime.datetime(1999, 12, 31, 23, 59, 59, 1)),
            # both occurrences of a repeated hour (clocks going back) and the hour after a skipped one
            Z.timezone('Berlin').localize(datetime.datetime(2016, 10, 30, 2, 30, 0), is_dst=True),
            Z.timezone('Berlin').localize(datetime.datetime(2016, 10, 30, 2, 30, 0), is_dst=False),
            Z.timezone('New_York').localize(datetime.datetime(2018, 11, 4, 1, 30, 0), is_dst=True),
            Z.timezone('Sydney').localize(datetime.datetime(2017, 4, 2, 2, 30, 0), is_dst=True),
            Z.timezone('Lord_Howe').localize(datetime.datetime(2017, 4, 2, 1, 45, 0), is_dst=True),
            Z.timezone('St_Johns').localize(datetime.datetime(2021, 1, 15, 8, 0, 0)),
            Z.timezone('New_York').localize(datetime.datetime(2018, 3, 11, 3, 0, 0)),
            datetime.datetime(2020, 1, 15, 12, 0, 0, tzinfo=datetime.timezone(datetime.timedelta(hours=-8))),
            datetime.datetime(2020, 7, 15, 12, 0, 0, tzinfo=datetime.timezone(datetime.timedelta(hours=-8))),
            datetime.datetime(2020, 7, 15, 12, 0, 0, tzinfo=datetime.timezone(datetime.timedelta(hours=-7))),
            datetime.datetime(2020, 1, 15, 12, 0, 0, tzinfo=datetime.timezone(datetime.timedelta(hours=-7))),
            datetime.datetime(2020, 3, 8, 2, 30, 0, tzinfo=datetime.timezone(datetime.timedelta(hours=-7))),
            datetime.datetime(2021, 6, 1, 0, 0, 0, tzinfo=datetime.timezone(datetime.timedelta(hours=5, minutes=45))),
            D.Coordinate(37.5, -122.25), D.Coordinate(-90, 180), D.Coordinate(0.123456, 0), D.Coordinate(-0.5, 0.000001),
            D.Ref('a-b.c:d~e_1'), D.Ref('x', 'dis play'), D.Ref('x', ''), D.Bin('text/plain'), D.Uri('http://a/b?c=d&e#f'), D.Uri(''),
            '', 'plain', 'n:1', 'T', '2020-01-01', u'\u20ac\U0001f600',
            # magnitudes at which a writer may switch notation or drop digits
            12345678901234567890.0, float(2 ** 64 - 1), 1.2345678901234567e25, 123456789012345.678, 1e16, 1.2345678e16, 9007199254740993.0,
            -9.87654321987e17, 1e15, 999999999999999.9, 1.5e-5, 0.000123456, D.Quantity(1.2345678901234567e19, 'ns'), D.Quantity(1.5e-5, 'm'),
            D.Coordinate(51.4779, -0.0000514), D.Coordinate(0.00001234, 9.45), D.Coordinate(89.9999999, -179.9999999), D.Coordinate(1e-7, -1e-7),
            # long payloads (line wrapping, chunking)
            'x' * 300, D.Uri('http://h/' + 'p/' * 100), D.Ref('r' * 80, 'd ' * 60),
            # header maps put in another order after creation
            ('reorder', 0, 7.5), ('reorder', 1, 'v'), ('reorder', 2, D.MARKER), ('reorder', 3, 1), ('reorder', 4, D.Uri('u'))]
    if extra == 'zones':
        vals = []
        for name in sorted(Z.get_tz_map().keys()):
            vals.append(Z.timezone(name).localize(datetime.datetime(2021, 7, 1, 12, 0, 0)))
            vals.append(Z.timezone(name).localize(datetime.datetime(2021, 1, 1, 0, 30, 0, 123456)))
        return vals
    if extra == 'pairs':
        # the same text carried by two different kinds in neighbouring cells, both orders (anything that remembers a text's
        # encoding without remembering its kind shows up here); ('pair', first, second)
        vals = []
        for t in ['a"b', 'x`y', 'p$q', 'a\\b', 'n\nl', ' ', u'\u03a9', 'p","q', 'x`,`y', '\\u0041', 'http://a/b#c', 'T', '1', 'a:b', 'x y']:
            kinds = [lambda t: t, lambda t: D.Uri(t), lambda t: D.Ref('r', t)] + ([lambda t: D.XStr('Tx', t)] if v3 else [])
            for i in range(len(kinds)):
                for j in range(len(kinds)):
                    if i != j:
                        vals.append(('pair', kinds[i](t), kinds[j](t)))
        return vals
    if extra == 'times':
        vals = []
        for us in list(range(0, 1000000, 2477)) + [1, 9, 10, 99, 100, 999999, 500000, 100000, 249, 1019, 261327]:
            vals.append(datetime.time(6, 30, us % 60, us))
            vals.append(Z.timezone('Paris').localize(datetime.datetime(2021, 3, 4, 5, 6, us % 60, us)))
        return vals
    if v3:
        ng = hz.Grid(version=version, columns=[('k', [])])
        ng.append({'k': 1})
        eg = hz.Grid(version=version, columns=[('e', [])])
        import base64 as _b64
        vals += [D.NA, D.XStr('hex', 'deadbeef'), D.XStr('b64', '3q2+7w=='), D.XStr('Span', 'today'),
                 D.XStr('b64', _b64.b64encode(bytes(range(60))).decode('ascii')), D.XStr('b64', _b64.b64encode(bytes(range(200))).decode('ascii')),
                 D.XStr('hex', 'ab' * 70), D.XStr('Str', 'line\n'), D.XStr('Str', 'abc=\n'), D.XStr('Note', 'x' * 200),
                 [], [1, 'a', D.MARKER, None, D.Ref('r')], [[1], [2, [3, 'x']]], {}, {'a': 1, 'b': D.MARKER, 'c': 'x y'},
                 [{'k': [D.NA, {'z': 2}]}], ng, eg, [ng, 5], {'g': ng},
                 # homogeneous collections (a fast path for "all plain numbers / all strings" is a classic slip)
                 [1, 2.5, -3], [float('inf'), 0.5], [float('nan')], [float('-inf'), 7, 1e20], [True, False], ['a', 'b"c', ''], [D.Quantity(1, 'm'), D.Quantity(2, 'm')],
                 [datetime.date(987, 6, 5), datetime.date(2020, 1, 1)], [datetime.time(1, 2, 3)], [D.Uri('a'), D.Uri('b')], [None, None],
                 {'a': float('inf'), 'b': 1}, {'n': float('nan')}, {'x': 'y'}, {'d': datetime.date(79, 8, 24)}]
    return vals


def run_catalog(job):
    hz = load()
    fails = []
    n = 0
    t0 = time.time()
    positions = job['positions']
    skip = set(job.get('skip_types', []))
    for i, v in enumerate(catalogue(hz, job['version'], job.get('extra'))):
        if type(v).__name__ in skip:
            continue
        for pos in positions:
            n += 1
            msg = check_concrete(hz, job, v[1], pos, v[2]) if (isinstance(v, tuple) and v and v[0] == 'pair') else check_concrete(hz, job, v, pos)
            if msg is not None:
                fails.append(dict(index=i, value=repr(v)[:80], position=pos, what=msg[:300]))
    return dict(job=job, status='exhausted', paths=n, aborted=0, reached=n, checks=0, solver_s=0.0, wall_s=round(time.time() - t0, 2),
                errors=[], samples=[], functions=sorted(instr.CALLED)[:200], nontrivial=n, catalog_failures=fails)


def check_concrete(hz, job, value, position, value2=None):
    fmt, version = job['fmt'], job['version']
    multi = job.get('multi', False)
    reorder = None
    if isinstance(value, tuple) and value and value[0] == 'reorder':
        reorder, value = value[1], value[2]
    if job.get('assert') in ('zincref', 'jsonref'):
        g = build_grid(hz, position, value, version, value2, reorder)
        try:
            with contextlib.redirect_stdout(io.StringIO()):
                msg, f = (writer_vs_reference if job['assert'] == 'zincref' else json_writer_vs_reference)(hz, g, multi, False)
        except Exception as e:
            return 'writer raised %s: %s' % (type(e).__name__, str(e)[:200])
        if msg is None and f is not True:
            msg = 'the reference reader recovers a different grid'
        return msg
    opts = dict(six_decimals=(fmt == 'json'), ordered_meta=True)
    g = build_grid(hz, position, value, version, value2, reorder)
    mode = hz.MODE_ZINC if fmt == 'zinc' else hz.MODE_JSON
    try:
        with contextlib.redirect_stdout(io.StringIO()):
            txt = hz.dump([g, g] if multi else g, mode=mode)
            back = hz.parse(txt, mode=mode, single=not multi)
    except Exception as e:
        return 'raised %s: %s' % (type(e).__name__, str(e)[:200])
    grids = back if multi else [back]
    if multi and len(grids) != 2:
        return 'grid count %d' % len(grids)
    for b in grids:
        if not isinstance(b, hz.Grid):
            return 'not a grid'
        if len(b) != len(g) or list(b.column.keys()) != list(g.column.keys()):
            return 'shape changed: rows=%d cols=%r' % (len(b), list(b.column.keys()))
        f = same_grid(hz, g, b, opts)
        if f is not True:
            return 'content differs: sent %r got back %r' % (list(g)[1], list(b)[1])
    if fmt == 'json':
        # the wire spelling of Remove follows the declared version (2.0: "x:", 3.0: "-:")
        bad = '-:' if version.startswith('2') else 'x:'
        def scan(t):
            if isinstance(t, dict):
                return any(scan(x) for x in t.values())
            if isinstance(t, list):
                return any(scan(x) for x in t)
            return t == bad
        if scan(json.loads(txt)):
            return 'Remove written as %r in a ver %s document' % (bad, version)
    return None


def replay_catalog(hz, job, payload):
    """payload = [index, position].  The whole catalogue prefix is replayed in the job's order, because a failure may
    depend on what was dumped or parsed before (process-wide caches)."""
    skip = set(job.get('skip_types', []))
    for i, v in enumerate(catalogue(hz, job['version'], job.get('extra'))):
        if type(v).__name__ in skip:
            continue
        for pos in job['positions']:
            msg = check_concrete(hz, job, v[1], pos, v[2]) if (isinstance(v, tuple) and v and v[0] == 'pair') else check_concrete(hz, job, v, pos)
            if i == payload[0] and pos == payload[1]:
                return msg
    return None


def replay(hz, job, payload):
    """Plain-CPython replay of one model through the public API (real text layer for both formats).
    Returns None when the property holds for this payload, else a message."""
    if job.get('kind') == 'catalog':
        return replay_catalog(hz, job, payload)
    if job.get('kind2'):
        return check_concrete(hz, job, make_payload(hz, job['kind'], payload[0]), job['position'], make_payload(hz, job['kind2'], payload[1]))
    value = make_payload(hz, job['kind'], payload)
    return check_concrete(hz, job, value, job['position'])


if __name__ == '__main__':
    job = json.loads(sys.argv[1])
    try:
        res = run_catalog(job) if job.get('kind') == 'catalog' else run_job(job)
    except BaseException:
        res = dict(job=job, status='fault', error=traceback.format_exc()[-2000:])
    sys.stdout.write('\nTEXT-RESULT ' + json.dumps(res) + '\n')
