"""Independent reference reader for Project Haystack ZINC (versions 2.0 and 3.0), written from the
specification (project-haystack.org/doc/Zinc as archived in 2014 and 2016) as a plain recursive-descent
parser.  It imports nothing from hszinc and does not use pyparsing or `re`.

It returns a *neutral* value tree (tuples of tags and texts); numbers, dates and times stay texts, so no
float/datetime library code is involved.  Where my recollection of the specification is not certain the reader
is permissive and the point is listed in UNCERTAIN (reported in the evidence).

The module is written so that it also runs on symbolic text: it only uses indexing, len, ==, <=/>= between
single characters, `in` on strings and string concatenation.
"""

UNCERTAIN = [
    'xstr type name: accepted as [A-Za-z0-9_]+ (spec: starts with an upper-case letter)',
    'raw characters above U+FFFF inside strings/URIs are accepted',
    'unit characters: letters, % _ / $ and every character >= U+0080',
    'a unit may not start with "_" or with something the exponent production would claim',
    'time-zone name: [A-Z][A-Za-z0-9_+-]*',
    'a date-time always carries Z or a +-hh:mm offset (a bare local date-time is not a well-formed value)',
    'URI escapes: \\: \\/ \\? \\# \\[ \\] \\@ \\` \\\\ \\& \\= \\; and \\uXXXX',
    'Bin(...) payload: printable ASCII except parentheses (2.0 only)',
    'blanks are allowed around "," and after ":" in metadata/dict pairs, and at line ends',
]


class RefReject(Exception):
    def __init__(self, pos, why):
        Exception.__init__(self, '%s at %d' % (why, pos))
        self.pos = pos
        self.why = why


def at(t, p):
    if p < len(t):
        return t[p]
    return ''


def is_digit(c):
    return c != '' and '0' <= c <= '9'


def is_lower(c):
    return c != '' and 'a' <= c <= 'z'


def is_upper(c):
    return c != '' and 'A' <= c <= 'Z'


def is_alpha(c):
    return is_lower(c) or is_upper(c)


def is_hex(c):
    return c != '' and (('0' <= c <= '9') or ('a' <= c <= 'f') or ('A' <= c <= 'F'))


def is_idchar(c):
    return is_alpha(c) or is_digit(c) or c == '_'


def is_unitchar(c):
    return c != '' and (is_alpha(c) or c == '%' or c == '_' or c == '/' or c == '$' or c >= '\x80')


def check_unit(t, p, q):
    for i in range(p, q):
        if t[i] > '\ufffe':
            raise RefReject(i, 'uncertain: unit character outside the basic multilingual plane')


def is_refchar(c):
    return c != '' and (is_alpha(c) or is_digit(c) or c == '_' or c == ':' or c == '-' or c == '.' or c == '~')


def skip_blanks(t, p):
    while at(t, p) == ' ':
        p += 1
    return p


def expect(t, p, lit):
    for i in range(len(lit)):
        if at(t, p + i) != lit[i]:
            raise RefReject(p + i, 'expected %r' % lit)
    return p + len(lit)


def looking_at(t, p, lit):
    for i in range(len(lit)):
        if at(t, p + i) != lit[i]:
            return False
    return True


# ---------------------------------------------------------------------------
def p_id(t, p):
    if not is_lower(at(t, p)):
        raise RefReject(p, 'expected id')
    q = p + 1
    while is_idchar(at(t, q)):
        q += 1
    c = at(t, q)
    if c != '' and c > '\x7f':
        # a letter-like character glued to a tag name: the name as written is not a legal tag name
        raise RefReject(q, 'illegal tag name')
    return q, t[p:q]


def hexval(c):
    if '0' <= c <= '9':
        return ord(c) - 48
    if 'a' <= c <= 'f':
        return ord(c) - 87
    return ord(c) - 55


def p_quoted(t, p, quote, escapes, keep_backslash=''):
    """string or URI literal; returns (end, decoded text)"""
    p = expect(t, p, quote)
    out = ''
    while True:
        c = at(t, p)
        if c == '':
            raise RefReject(p, 'unterminated literal')
        if c == quote:
            return p + 1, out
        if c < ' ':
            raise RefReject(p, 'raw control character in literal')
        if c == '\\':
            e = at(t, p + 1)
            if e == 'u' or e == 'U':
                h = [at(t, p + 2 + i) for i in range(4)]
                for x in h:
                    if not is_hex(x):
                        raise RefReject(p, 'bad \\u escape')
                out = out + chr(hexval(h[0]) * 4096 + hexval(h[1]) * 256 + hexval(h[2]) * 16 + hexval(h[3]))
                p += 6
                continue
            if e == '' or e not in escapes:
                raise RefReject(p, 'illegal escape')
            if quote == '`' and e in ':/?#[]@&=;':
                # whether these URI escapes keep their backslash in the value differs between readers
                raise RefReject(p, 'uncertain: URI escape whose denotation I am not sure about')
            if e == 'b':
                out = out + '\b'
            elif e == 'f':
                out = out + '\f'
            elif e == 'n':
                out = out + '\n'
            elif e == 'r':
                out = out + '\r'
            elif e == 't':
                out = out + '\t'
            elif e in keep_backslash:
                out = out + '\\' + e
            else:
                out = out + e
            p += 2
            continue
        out = out + c
        p += 1


STR_ESC = 'bfnrt\\"$'
URI_ESC = 'bfnrt\\:/?#[]@&=;`'


def p_str(t, p):
    return p_quoted(t, p, '"', STR_ESC)


def p_uri(t, p, keep_backslash=''):
    return p_quoted(t, p, '`', URI_ESC, keep_backslash)


def p_digits(t, p):
    """<digits> := <digit> (<digit> | "_")* ; returns (end, text without separators)"""
    if not is_digit(at(t, p)):
        raise RefReject(p, 'expected digit')
    out = ''
    while True:
        c = at(t, p)
        if is_digit(c):
            out = out + c
        elif c != '_':
            break
        p += 1
    return p, out


def p_number(t, p):
    start = p
    txt = ''
    if at(t, p) == '-':
        txt = '-'
        p += 1
    p, d = p_digits(t, p)
    txt = txt + d
    if at(t, p) == '.' and is_digit(at(t, p + 1)):
        p2, d2 = p_digits(t, p + 1)
        txt = txt + '.' + d2
        p = p2
    c = at(t, p)
    if c == 'e' or c == 'E':
        q = p + 1
        sign = ''
        if at(t, q) == '+' or at(t, q) == '-':
            sign = at(t, q)
            q += 1
        if is_digit(at(t, q)):
            q, d3 = p_digits(t, q)
            txt = txt + 'e' + sign + d3
            p = q
    unit = None
    q = p
    while is_unitchar(at(t, q)):
        q += 1
    if q > p:
        check_unit(t, p, q)
        unit = t[p:q]
    return q, ('num', txt, unit)


def dval(c):
    return ord(c) - 48


def check_date(t, p):
    """YYYY-MM-DD at p is a real calendar date (year 1..9999)"""
    y = dval(at(t, p)) * 1000 + dval(at(t, p + 1)) * 100 + dval(at(t, p + 2)) * 10 + dval(at(t, p + 3))
    m = dval(at(t, p + 5)) * 10 + dval(at(t, p + 6))
    d = dval(at(t, p + 8)) * 10 + dval(at(t, p + 9))
    for i in (0, 1, 2, 3, 5, 6, 8, 9):
        if not ('0' <= at(t, p + i) <= '9'):
            raise RefReject(p, 'uncertain: non-ASCII digit in a date')
    if y < 1 or m < 1 or m > 12 or d < 1:
        raise RefReject(p, 'invalid calendar date')
    if m == 2:
        leap = (y % 4 == 0 and y % 100 != 0) or (y % 400 == 0)
        lim = 29 if leap else 28
    elif m == 4 or m == 6 or m == 9 or m == 11:
        lim = 30
    else:
        lim = 31
    if d > lim:
        raise RefReject(p, 'invalid calendar date')


def check_hms(t, p):
    for i in (0, 1, 3, 4, 6, 7):
        if not ('0' <= at(t, p + i) <= '9'):
            raise RefReject(p, 'uncertain: non-ASCII digit in a time')
    h = dval(at(t, p)) * 10 + dval(at(t, p + 1))
    mi = dval(at(t, p + 3)) * 10 + dval(at(t, p + 4))
    se = dval(at(t, p + 6)) * 10 + dval(at(t, p + 7))
    if h > 23 or mi > 59 or se > 59:
        raise RefReject(p, 'invalid time of day')


def two_digits(t, p):
    if not (is_digit(at(t, p)) and is_digit(at(t, p + 1))):
        raise RefReject(p, 'expected two digits')
    return p + 2


def looks_like_date(t, p):
    for i in (0, 1, 2, 3, 5, 6, 8, 9):
        if not is_digit(at(t, p + i)):
            return False
    return at(t, p + 4) == '-' and at(t, p + 7) == '-'


def looks_like_time(t, p):
    return is_digit(at(t, p)) and is_digit(at(t, p + 1)) and at(t, p + 2) == ':'


def p_time(t, p):
    q = two_digits(t, p)
    q = expect(t, q, ':')
    q = two_digits(t, q)
    q = expect(t, q, ':')
    q = two_digits(t, q)
    check_hms(t, p)
    hms = t[p:q]
    frac = ''
    if at(t, q) == '.' and is_digit(at(t, q + 1)):
        r = q + 1
        while is_digit(at(t, r)):
            r += 1
        frac = t[q + 1:r]
        for i in range(len(frac)):
            if not ('0' <= frac[i] <= '9'):
                raise RefReject(q, 'uncertain: non-ASCII digit in a time')
        if len(frac) > 6:
            raise RefReject(q, 'uncertain: more than six fraction digits')
        q = r
    return q, hms, frac


def p_date_or_datetime(t, p):
    check_date(t, p)
    d = t[p:p + 10]
    q = p + 10
    c = at(t, q)
    if not (c == 'T' or c == 't'):
        return q, ('date', d)
    q, hms, frac = p_time(t, q + 1)
    c = at(t, q)
    off = None
    if c == 'Z' or c == 'z':
        off = '+00:00'
        q += 1
    elif c == '+' or c == '-':
        r = two_digits(t, q + 1)
        r = expect(t, r, ':')
        r = two_digits(t, r)
        for i in (1, 2, 4, 5):
            if not ('0' <= at(t, q + i) <= '9'):
                raise RefReject(q, 'uncertain: non-ASCII digit in an offset')
        if dval(at(t, q + 1)) * 10 + dval(at(t, q + 2)) > 14 or dval(at(t, q + 4)) * 10 + dval(at(t, q + 5)) > 59:
            raise RefReject(q, 'uncertain: UTC offset beyond +-14:59')
        off = t[q:r]
        q = r
    else:
        # the grammar's date-time always carries Z or +-hh:mm; what a reader does with a bare local time is not specified
        raise RefReject(q, 'uncertain: date-time without a UTC offset')
    tz = None
    if at(t, q) == ' ' and is_upper(at(t, q + 1)):
        r = q + 2
        while True:
            c = at(t, r)
            if c != '' and (is_alpha(c) or is_digit(c) or c == '_' or c == '-' or c == '+'):
                r += 1
            else:
                break
        tz = t[q + 1:r]
        # '+' only in the GMT+n / UTC+n family
        for i in range(len(tz)):
            if tz[i] == '+' and not (i == 3 and len(tz) > 4 and (looking_at(tz, 0, 'GMT') or looking_at(tz, 0, 'UTC'))):
                raise RefReject(q, 'uncertain: "+" inside a zone name')
        if len(tz) > 3 and (looking_at(tz, 0, 'GMT') or looking_at(tz, 0, 'UTC')) and (tz[3] == '+' or tz[3] == '-'):
            for i in range(4, len(tz)):
                if not is_digit(tz[i]):
                    raise RefReject(q, 'uncertain: GMT/UTC offset zone with a non-digit')
        q = r
    return q, ('datetime', d, hms, frac, off, tz)


def p_coorddeg(t, p):
    q = p
    txt = ''
    if at(t, q) == '-':
        txt = '-'
        q += 1
    q, d = p_digits(t, q)
    txt = txt + d
    if at(t, q) == '.':
        q, d2 = p_digits(t, q + 1)
        txt = txt + '.' + d2
    return q, txt


def no_dups(items, p):
    for i in range(len(items)):
        for j in range(i + 1, len(items)):
            if items[i][0] == items[j][0]:
                raise RefReject(p, 'uncertain: the same name twice')


class Reader:
    def __init__(self, version):
        if not (version == '2.0' or version == '3.0'):
            raise RefReject(0, 'uncertain: a version other than 2.0 and 3.0')
        self.v3 = version == '3.0'

    # -- scalars ----------------------------------------------------------
    def p_scalar(self, t, p):
        c = at(t, p)
        if c == '':
            raise RefReject(p, 'expected a value')
        if c == '"':
            q, s = p_str(t, p)
            return q, ('str', s)
        if c == '`':
            q, s = p_uri(t, p)
            return q, ('uri', s)
        if c == '@':
            q = p + 1
            while is_refchar(at(t, q)):
                q += 1
            name = t[p + 1:q]
            if at(t, q) == ' ' and at(t, q + 1) == '"':
                r, dis = p_str(t, q + 1)
                return r, ('ref', name, dis)
            return q, ('ref', name, None)
        if c == '-' and looking_at(t, p, '-INF'):
            return p + 4, ('num', '-INF', None)
        if looks_like_date(t, p):
            return p_date_or_datetime(t, p)
        if looks_like_time(t, p):
            q, hms, frac = p_time(t, p)
            return q, ('time', hms, frac)
        if is_digit(c) or (c == '-' and is_digit(at(t, p + 1))):
            return p_number(t, p)
        if c == '[' or c == '{' or (c == '<' and at(t, p + 1) == '<'):
            if not self.v3:
                raise RefReject(p, '3.0-only construct in a 2.0 grid')
            if c == '[':
                return self.p_list(t, p)
            if c == '{':
                return self.p_dict(t, p)
            return self.p_nested(t, p)
        if is_alpha(c) or c == '_':
            # keyword, or TypeName(...)
            q = p
            while is_idchar(at(t, q)):
                q += 1
            if at(t, q) == '(':
                if at(t, q + 1) == '"' and self.v3:
                    r, s = p_str(t, q + 1)
                    r = expect(t, r, ')')
                    typ = t[p:q]
                    if typ == 'hex' or typ == 'b64':
                        for i in range(len(s)):
                            c = s[i]
                            okc = is_hex(c) if typ == 'hex' else (is_alpha(c) or is_digit(c) or c == '+' or c == '/' or c == '=')
                            if not okc:
                                raise RefReject(q, 'uncertain: payload of a hex/b64 XStr that a decoder may refuse')
                        if typ == 'hex' and len(s) % 2 == 1:
                            raise RefReject(q, 'uncertain: payload of a hex/b64 XStr that a decoder may refuse')
                        if typ == 'b64' and len(s) % 4 != 0:
                            raise RefReject(q, 'uncertain: payload of a hex/b64 XStr that a decoder may refuse')
                        if typ == 'b64':
                            for i in range(len(s)):
                                if s[i] == '=' and i < len(s) - 2:
                                    raise RefReject(q, 'uncertain: payload of a hex/b64 XStr that a decoder may refuse')
                            if len(s) >= 2 and s[len(s) - 2] == '=' and s[len(s) - 1] != '=':
                                raise RefReject(q, 'uncertain: payload of a hex/b64 XStr that a decoder may refuse')
                    return r, ('xstr', typ, s)
                if looking_at(t, p, 'C(') and q == p + 1:
                    r, lat = p_coorddeg(t, q + 1)
                    r = skip_blanks(t, r)
                    r = expect(t, r, ',')
                    r = skip_blanks(t, r)
                    r, lng = p_coorddeg(t, r)
                    r = expect(t, r, ')')
                    return r, ('coord', lat, lng)
                if looking_at(t, p, 'Bin(') and q == p + 3 and not self.v3:
                    r = q + 1
                    while True:
                        b = at(t, r)
                        if b != '' and ' ' <= b <= '~' and b != '(' and b != ')':
                            r += 1
                        else:
                            break
                    r2 = expect(t, r, ')')
                    return r2, ('bin', t[q + 1:r])
                raise RefReject(q, 'unknown typed literal')
            word = t[p:q]
            if word == 'N':
                return q, ('null',)
            if word == 'M':
                return q, ('marker',)
            if word == 'R':
                return q, ('remove',)
            if word == 'T':
                return q, ('bool', True)
            if word == 'F':
                return q, ('bool', False)
            if word == 'NA':
                if not self.v3:
                    raise RefReject(p, '3.0-only construct in a 2.0 grid')
                return q, ('na',)
            if word == 'INF':
                return q, ('num', 'INF', None)
            if word == 'NaN':
                return q, ('num', 'NaN', None)
            raise RefReject(p, 'unknown keyword')
        raise RefReject(p, 'unexpected character')

    def p_list(self, t, p):
        q = skip_blanks(t, p + 1)
        items = []
        if at(t, q) == ']':
            return q + 1, ('list', items)
        while True:
            q, v = self.p_scalar(t, q)
            items.append(v)
            q = skip_blanks(t, q)
            if at(t, q) == ',':
                q = skip_blanks(t, q + 1)
                if at(t, q) == ']':
                    return q + 1, ('list', items)
                continue
            q = expect(t, q, ']')
            return q, ('list', items)

    def p_dict(self, t, p):
        q = skip_blanks(t, p + 1)
        items = []
        while True:
            if at(t, q) == '}':
                no_dups(items, q)
                return q + 1, ('dict', items)
            q, k = p_id(t, q)
            if at(t, q) == ':':
                if at(t, q + 1) == ' ':
                    raise RefReject(q, 'uncertain: blank after a colon')
                q, v = self.p_scalar(t, q + 1)
                items.append((k, v))
            else:
                items.append((k, ('marker',)))
            r = skip_blanks(t, q)
            if at(t, r) == ',':
                raise RefReject(r, 'uncertain: comma between dict tags')
            elif r == q and at(t, r) != '}':
                raise RefReject(r, 'expected blank between tags')
            q = r

    def p_nested(self, t, p):
        q = skip_blanks(t, p + 2)
        q, g = self.p_grid(t, q, nested=True)
        q = skip_blanks(t, q)
        q = expect(t, q, '>>')
        return q, g

    # -- grid -------------------------------------------------------------
    def p_meta(self, t, p):
        """zero or more tags, each preceded by exactly the blanks that separate them"""
        items = []
        while at(t, p) == ' ' and is_lower(at(t, skip_blanks(t, p))):
            if skip_blanks(t, p) != p + 1:
                raise RefReject(p, 'uncertain: more than one blank between tags')
            p = p + 1
            p, k = p_id(t, p)
            if at(t, p) == ':':
                if at(t, p + 1) == ' ':
                    raise RefReject(p, 'uncertain: blank after a colon')
                r, v = self.p_scalar(t, p + 1)
                items.append((k, v))
                p = r
            else:
                if at(t, skip_blanks(t, p)) == ':':
                    raise RefReject(p, 'uncertain: blank before a colon')
                items.append((k, ('marker',)))
        no_dups(items, p)
        return p, items

    def p_nl(self, t, p):
        p = skip_blanks(t, p)
        if at(t, p) == '\r' and at(t, p + 1) == '\n':
            return p + 2
        if at(t, p) == '\n':
            return p + 1
        raise RefReject(p, 'expected end of line')

    def p_grid(self, t, p, nested=False):
        p = expect(t, p, 'ver:')
        p, ver = p_str(t, p)
        if nested and not ((ver == '3.0' and self.v3) or (ver == '2.0' and not self.v3)):
            # a nested grid is read under the version it declares
            sub = Reader(ver)
            return sub.p_grid_body(t, p, ver, nested)
        return self.p_grid_body(t, p, ver, nested)

    def p_grid_body(self, t, p, ver, nested):
        p, meta = self.p_meta(t, p)
        p = self.p_nl(t, p)
        cols = []
        if at(t, p) == ' ':
            raise RefReject(p, 'uncertain: blank at the start of a line')
        while True:
            p, name = p_id(t, p)
            p, cm = self.p_meta(t, p)
            cols.append((name, cm))
            q = skip_blanks(t, p)
            if at(t, q) == ',':
                p = skip_blanks(t, q + 1)
                continue
            break
        no_dups(cols, p)
        if nested and looking_at(t, skip_blanks(t, p), '>>'):
            return p, ('grid', ver, meta, cols, [])
        if at(t, skip_blanks(t, p)) == '' and not nested:
            return skip_blanks(t, p), ('grid', ver, meta, cols, [])          # no final newline, no rows
        p = self.p_nl(t, p)
        rows = []
        while True:
            c = at(t, p)
            if c == '' or (nested and looking_at(t, skip_blanks(t, p), '>>')):
                break
            if c == '\n' or (c == '\r' and at(t, p + 1) == '\n'):
                if nested:
                    raise RefReject(p, 'uncertain: blank line inside a nested grid')
                break                                    # blank line: end of this grid
            row = []
            if at(t, p) == ' ':
                raise RefReject(p, 'uncertain: blank at the start of a line')
            while True:
                c = at(t, p)
                if c == ',' or c == '\n' or c == '\r' or c == '' or (nested and looking_at(t, p, '>>')):
                    row.append(('null',))
                else:
                    p, v = self.p_scalar(t, p)
                    row.append(v)
                p = skip_blanks(t, p)
                if at(t, p) == ',':
                    p = skip_blanks(t, p + 1)
                    continue
                break
            if len(row) != len(cols):
                if not (len(row) == 1 and row[0] == ('null',) and len(cols) >= 1 and False):
                    raise RefReject(p, 'row has %d cells for %d columns' % (len(row), len(cols)))
            rows.append(row)
            if nested and looking_at(t, skip_blanks(t, p), '>>'):
                raise RefReject(p, 'uncertain: last row of a nested grid without its newline')
            if at(t, p) == '':
                break                                    # document without a final newline
            p = self.p_nl(t, p)
        return p, ('grid', ver, meta, cols, rows)


def parse_document(t):
    """whole document: one or more grids separated by blank lines -> list of neutral grids"""
    grids = []
    p = 0
    n = len(t)
    while True:
        # version sniffing
        q = expect(t, p, 'ver:')
        _, ver = p_str(t, q)
        if not isinstance(ver, str):
            raise RefReject(q, 'symbolic version text')
        rd = Reader(ver)
        p, g = rd.p_grid(t, p)
        grids.append(g)
        # skip blank lines
        saw = False
        while True:
            if at(t, p) == '\n':
                p += 1
                saw = True
            elif at(t, p) == '\r' and at(t, p + 1) == '\n':
                p += 2
                saw = True
            else:
                break
        if p >= n:
            return grids
        if not saw:
            raise RefReject(p, 'garbage after grid')


def parse_scalar(t, version='3.0'):
    rd = Reader(version)
    p, v = rd.p_scalar(t, 0)
    if p != len(t):
        raise RefReject(p, 'trailing text after scalar')
    return v
