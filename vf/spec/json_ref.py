"""Independent reference decoder for Project Haystack JSON (grid objects and the type-prefixed string
encoding of scalars), written from the specification (project-haystack.org/doc/Json).  Imports nothing from
hszinc, uses neither `re` nor `json`; works on already decoded JSON trees (None/bool/number/str/list/dict) and,
like zinc_ref, also on symbolic strings.  Produces the same neutral trees as zinc_ref.
"""
from .zinc_ref import (RefReject, at, is_digit, is_alpha, is_upper, is_lower, is_refchar, is_idchar,
                       check_date, check_hms, dval, no_dups, two_digits, expect, looking_at)

UNCERTAIN = [
    'a string whose second character is ":" but whose first character is not a known type code',
    'number text: -?digits[.digits][e[+-]digits]; INF, -INF, NaN',
    'time: hh:mm[:ss[.fraction]] ; date-time: ISO 8601 with Z or +-hh:mm offset, optional zone name after a blank',
    'x:<type>:<payload> is an XStr under 3.0; "x:" alone is Remove under 2.0, "-:" under 3.0 (a reader accepts both)',
    'empty reference name, empty unit after the blank',
]


def _digits(t, p):
    q = p
    while is_digit(at(t, q)):
        q += 1
    if q == p:
        raise RefReject(p, 'expected digit')
    return q


def p_numtext(t, p):
    """-> (end, normalised text)"""
    q = p
    if at(t, q) == '-':
        q += 1
    q = _digits(t, q)
    if at(t, q) == '.':
        q = _digits(t, q + 1)
    c = at(t, q)
    if c == 'e' or c == 'E':
        r = q + 1
        if at(t, r) == '+' or at(t, r) == '-':
            r += 1
        q = _digits(t, r)
    return q, t[p:q]


def decode_string(s, v3):
    n = len(s)
    if n < 2 or at(s, 1) != ':':
        return ('str', s)
    code = at(s, 0)
    body = s[2:]
    if code == 's':
        return ('str', body)
    if code == 'm' and n == 2:
        return ('marker',)
    if code == 'z' and n == 2:
        return ('na',)
    if code == '-' and n == 2:
        return ('remove',)
    if code == 'x' and n == 2:
        return ('remove',)
    if code == 'n':
        if body == 'INF' or body == '-INF' or body == 'NaN':
            return ('num', body, None)
        q, txt = p_numtext(body, 0)
        if q == len(body):
            return ('num', txt, None)
        if at(body, q) != ' ':
            raise RefReject(q, 'garbage after number')
        unit = body[q + 1:]
        if len(unit) == 0:
            raise RefReject(q, 'uncertain: empty unit')
        return ('num', txt, unit)
    if code == 'r':
        q = 0
        while is_refchar(at(body, q)):
            q += 1
        if q == 0:
            raise RefReject(0, 'uncertain: empty reference name')
        if q == len(body):
            return ('ref', body, None)
        if at(body, q) != ' ':
            raise RefReject(q, 'illegal character in reference name')
        return ('ref', body[:q], body[q + 1:])
    if code == 'u':
        return ('uri', body)
    if code == 'b':
        return ('bin', body)
    if code == 'd':
        if len(body) != 10 or at(body, 4) != '-' or at(body, 7) != '-':
            raise RefReject(0, 'malformed date')
        for i in (0, 1, 2, 3, 5, 6, 8, 9):
            if not is_digit(at(body, i)):
                raise RefReject(i, 'malformed date')
        check_date(body, 0)
        return ('date', body)
    if code == 'h':
        return decode_time(body)
    if code == 't':
        return decode_datetime(body)
    if code == 'c':
        q = 0
        if at(body, q) == '-':
            q += 1
        q = _digits(body, q)
        if at(body, q) == '.':
            q = _digits(body, q + 1)
        lat = body[:q]
        q = expect(body, q, ',')
        r = q
        if at(body, r) == '-':
            r += 1
        r = _digits(body, r)
        if at(body, r) == '.':
            r = _digits(body, r + 1)
        if r != len(body):
            raise RefReject(r, 'garbage after coordinate')
        return ('coord', lat, body[q:r])
    if code == 'x':
        if not v3:
            raise RefReject(0, '3.0-only construct in a 2.0 grid')
        q = 0
        while at(body, q) != '' and at(body, q) != ':':
            q += 1
        if q == 0 or at(body, q) != ':':
            raise RefReject(q, 'uncertain: XStr without type or payload')
        typ = body[:q]
        for i in range(len(typ)):
            if not is_idchar(typ[i]):
                raise RefReject(i, 'uncertain: XStr type name character')
        pay = body[q + 1:]
        if typ == 'hex' or typ == 'b64':
            for i in range(len(pay)):
                c = pay[i]
                okc = (('0' <= c <= '9') or ('a' <= c <= 'f') or ('A' <= c <= 'F')) if typ == 'hex' else (is_alpha(c) or is_digit(c) or c == '+' or c == '/' or (c == '=' and i >= len(pay) - 2))
                if not okc:
                    raise RefReject(q, 'uncertain: payload of a hex/b64 XStr that a decoder may refuse')
            if (typ == 'hex' and len(pay) % 2 == 1) or (typ == 'b64' and len(pay) % 4 != 0):
                raise RefReject(q, 'uncertain: payload of a hex/b64 XStr that a decoder may refuse')
            if typ == 'b64' and len(pay) >= 2 and pay[len(pay) - 2] == '=' and pay[len(pay) - 1] != '=':
                raise RefReject(q, 'uncertain: payload of a hex/b64 XStr that a decoder may refuse')
        return ('xstr', typ, pay)
    raise RefReject(0, 'uncertain: unknown type code')


def decode_time(body):
    """hh:mm[:ss[.f+]] -> ('time', 'hh:mm:ss', fraction)"""
    q = two_digits(body, 0)
    q = expect(body, q, ':')
    q = two_digits(body, q)
    if q == len(body):
        hms = body + ':00'
        check_hms(hms, 0)
        return ('time', hms, '')
    q = expect(body, q, ':')
    q = two_digits(body, q)
    check_hms(body, 0)
    frac = ''
    if at(body, q) == '.':
        r = _digits(body, q + 1)
        frac = body[q + 1:r]
        q = r
    if q != len(body):
        raise RefReject(q, 'garbage after time')
    return ('time', body[:8], frac)


def decode_datetime(body):
    if len(body) < 19 or at(body, 4) != '-' or at(body, 7) != '-' or at(body, 10) != 'T':
        raise RefReject(0, 'malformed date-time')
    for i in (0, 1, 2, 3, 5, 6, 8, 9):
        if not is_digit(at(body, i)):
            raise RefReject(i, 'malformed date-time')
    check_date(body, 0)
    q = two_digits(body, 11)
    q = expect(body, q, ':')
    q = two_digits(body, q)
    q = expect(body, q, ':')
    q = two_digits(body, q)
    check_hms(body, 11)
    frac = ''
    if at(body, q) == '.':
        r = _digits(body, q + 1)
        frac = body[q + 1:r]
        if len(frac) > 6:
            raise RefReject(q, 'uncertain: more than six fraction digits')
        q = r
    c = at(body, q)
    off = None
    if c == 'z':
        raise RefReject(q, 'uncertain: lower-case z')
    if c == 'Z':
        off = '+00:00'
        q += 1
    elif c == '+' or c == '-':
        r = two_digits(body, q + 1)
        r = expect(body, r, ':')
        r = two_digits(body, r)
        if dval(at(body, q + 1)) * 10 + dval(at(body, q + 2)) > 14 or dval(at(body, q + 4)) * 10 + dval(at(body, q + 5)) > 59:
            raise RefReject(q, 'uncertain: UTC offset beyond +-14:59')
        off = body[q:r]
        q = r
    else:
        raise RefReject(q, 'uncertain: date-time without UTC offset')
    tz = None
    if q != len(body):
        if at(body, q) != ' ' or not is_upper(at(body, q + 1)):
            raise RefReject(q, 'garbage after date-time')
        r = q + 2
        while True:
            c = at(body, r)
            if c != '' and (is_alpha(c) or is_digit(c) or c == '_' or c == '-' or c == '+'):
                r += 1
            else:
                break
        if r != len(body):
            raise RefReject(r, 'garbage after zone name')
        tz = body[q + 1:r]
    return ('datetime', body[:10], body[11:19], frac, off, tz)


def is_text(v):
    return isinstance(v, str) or type(v).__name__ in ('SymStr', 'Uri', 'Bin')


def decode_value(v, v3):
    if v is None:
        return ('null',)
    if v is True or v is False:
        return ('bool', v)
    if isinstance(v, (int, float)) and not isinstance(v, bool):
        return ('numval', v, None)
    if is_text(v):
        return decode_string(v, v3)
    if isinstance(v, list):
        if not v3:
            raise RefReject(0, '3.0-only construct in a 2.0 grid')
        return ('list', [decode_value(x, v3) for x in v])
    if isinstance(v, dict):
        if not v3:
            raise RefReject(0, '3.0-only construct in a 2.0 grid')
        if 'meta' in v and 'cols' in v and 'rows' in v:
            return decode_grid(v)
        return ('dict', [(k, decode_value(x, v3)) for k, x in v.items()])
    raise RefReject(0, 'not a JSON value: %s' % type(v).__name__)


def decode_grid(obj):
    if not isinstance(obj, dict) or 'meta' not in obj or 'cols' not in obj:
        raise RefReject(0, 'not a grid object')
    meta = obj['meta']
    if not isinstance(meta, dict) or 'ver' not in meta:
        raise RefReject(0, 'grid without meta.ver')
    ver = meta['ver']
    if not (ver == '2.0' or ver == '3.0'):
        raise RefReject(0, 'uncertain: a version other than 2.0 and 3.0')
    v3 = ver == '3.0'
    gm = [(k, decode_value(x, v3)) for k, x in meta.items() if k != 'ver']
    cols = []
    for c in obj['cols']:
        if not isinstance(c, dict) or 'name' not in c:
            raise RefReject(0, 'column without name')
        cols.append((c['name'], [(k, decode_value(x, v3)) for k, x in c.items() if k != 'name']))
    no_dups(cols, 0)
    rows = []
    for r in (obj.get('rows') or []):
        if not isinstance(r, dict):
            raise RefReject(0, 'row is not an object')
        for k in r:
            if k not in [n for n, _ in cols]:
                raise RefReject(0, 'uncertain: row key that is not a column')
        rows.append([decode_value(r.get(n), v3) for n, _ in cols])
    return ('grid', ver, gm, cols, rows)


def decode_document(tree):
    if isinstance(tree, list):
        return [decode_grid(g) for g in tree]
    return [decode_grid(tree)]
