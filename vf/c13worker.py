"""C13 worker: explore all preemption-bounded interleavings (symbolic schedule, symx explorer) of threads compiling and
evaluating distinct filters; or run the concrete long history.   python -m vf.c13worker '<job json>'"""
import contextlib
import io
import json
import sys
import time
import traceback
import warnings

warnings.simplefilter('ignore')


def main(job):
    from . import common, sched
    sys.path.insert(0, common.REPO)
    import logging
    logging.disable(logging.CRITICAL)
    with contextlib.redirect_stdout(io.StringIO()):
        import hszinc
    t0 = time.time()
    if job.get('history'):
        msg = sched.long_history(hszinc, job.get('n', 1500))
        return dict(job=job, status='done', problem=msg, schedules=1, checks=0, solver_s=0.0, wall_s=round(time.time() - t0, 2))
    import z3
    from .symx import core
    if job.get('seq'):
        ex = core.Explorer(timeout=job.get('timeout', 300))
        found = {}
        cnt = {'n': 0, 'samples': []}

        def body():
            ops = []
            for k in range(job['seq']):
                f = z3.Int('f%d' % k)
                h = z3.Bool('h%d' % k)
                ex.assume(z3.And(f >= 0, f < job.get('filters', 3)))
                ops.append((ex.concretize(f), ex.decide(h)))
            cnt['n'] += 1
            if len(cnt['samples']) < 3:
                cnt['samples'].append(ops)
            msg = sched.sequence_run(hszinc, ops, job.get('capacity', 2), job.get('family', 1))
            return ('cex', msg, ops) if msg else ('ok',)

        def on_result(r, ex):
            if r and r[0] == 'cex':
                found['cex'] = r
                return True
            return False
        status = ex.explore(body, on_result=on_result)
        out = dict(job=job, status=status, schedules=cnt['n'], paths=ex.paths, checks=ex.checks, solver_s=round(ex.solver_time, 2),
                   wall_s=round(time.time() - t0, 2), samples=cnt['samples'], errors=ex.errors[:3])
        if 'cex' in found:
            out['cex'] = dict(what=found['cex'][1], schedule=found['cex'][2])
        return out
    sc = sched.Scenario(hszinc, job.get('threads', 2), job.get('warm', 0), job.get('small_cache', 0), job.get('trace_eval', 0))
    ex = core.Explorer(timeout=job.get('timeout', 300))
    found = {}
    seen = {'n': 0, 'samples': []}

    def body():
        def choose(nrun, step):
            x = z3.Int('s%d' % step)
            ex.assume(z3.And(x >= 0, x < nrun))
            return ex.concretize(x)
        msg, schedule = sc.run(choose, job.get('max_preempt', 2))
        seen['n'] += 1
        if len(seen['samples']) < 3:
            seen['samples'].append(schedule)
        if msg is not None:
            return ('cex', msg, schedule)
        return ('ok',)

    def on_result(r, ex):
        if r and r[0] == 'cex':
            found['cex'] = r
            return True
        return False
    status = ex.explore(body, on_result=on_result)
    out = dict(job=job, status=status, schedules=seen['n'], paths=ex.paths, checks=ex.checks, solver_s=round(ex.solver_time, 2),
               wall_s=round(time.time() - t0, 2), samples=seen['samples'], errors=ex.errors[:3])
    if 'cex' in found:
        out['cex'] = dict(what=found['cex'][1], schedule=found['cex'][2])
    return out


if __name__ == '__main__':
    job = json.loads(sys.argv[1])
    try:
        res = main(job)
    except BaseException:
        res = dict(job=job, status='fault', error=traceback.format_exc()[-1500:])
    sys.stdout.write('\nC13-RESULT ' + json.dumps(res) + '\n')
