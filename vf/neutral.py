"""Neutral value trees: conversion of hszinc values (the grid that was dumped) and comparison with the tree an
independent reference reader produced.  Pure python (usable in replay without the solver)."""
import datetime
import sys

try:
    from .symx.symre import b_and
    from .symx.sstr import SymStr
except ImportError:
    def b_and(*xs):
        return all(x is True for x in xs)

    class SymStr(object):
        def __init__(self, s):
            self.s = s

        def eq_term(self, o):
            return str(self.s) == str(o)


def plain(txt):
    """concrete str of a text; a symbolic text is concretised by exhaustive forking over its (small) domain"""
    if txt is None or isinstance(txt, str):
        return txt
    from .symx import core
    chars = [c if isinstance(c, int) else core.cur().concretize(c, 700) for c in txt.c]
    return ''.join(map(chr, chars))


def txt_same(a, b):
    if a is None or b is None:
        return a is None and b is None
    if isinstance(a, str) and isinstance(b, str):
        return str.__eq__(str(a), str(b))          # Uri/Bin are str subclasses with kind-aware ==; here only the text counts
    return SymStr(a).eq_term(b)


def to_neutral(hz, v):
    D = sys.modules['hszinc.datatypes']
    if v is None:
        return ('null',)
    if v is D.MARKER:
        return ('marker',)
    if v is D.REMOVE:
        return ('remove',)
    if v is D.NA:
        return ('na',)
    if isinstance(v, bool) or type(v).__name__ == 'SymBool':
        return ('bool', bool(v))
    if isinstance(v, D.Uri):
        return ('uri', v)
    if isinstance(v, D.Bin):
        return ('bin', v)
    if isinstance(v, D.Ref):
        return ('ref', v.name, v.value if v.has_value else None)
    if isinstance(v, D.XStr):
        return ('xstr', v.encoding, v.data_to_string())
    if isinstance(v, D.Qty):
        return ('numval', v.value, v.unit or None)
    if isinstance(v, (int, float)):
        return ('numval', v, None)
    if isinstance(v, datetime.datetime):
        return ('dtval', v)
    if isinstance(v, datetime.date):
        return ('date', v.isoformat())
    if isinstance(v, datetime.time):
        return ('timeval', v)
    if isinstance(v, D.Coordinate):
        return ('coordval', v.latitude, v.longitude)
    if isinstance(v, list):
        return ('list', [to_neutral(hz, x) for x in v])
    if isinstance(v, hz.Grid):
        return ('grid', type(v.version).__str__(v.version), [(k, to_neutral(hz, x)) for k, x in v.metadata.items()],
                [(c, [(k, to_neutral(hz, x)) for k, x in v.column[c].items()]) for c in v.column.keys()],
                [[to_neutral(hz, r.get(c)) for c in v.column.keys()] for r in v])
    if isinstance(v, dict):
        return ('dict', [(k, to_neutral(hz, x)) for k, x in v.items()])
    if isinstance(v, str) or type(v).__name__ == 'SymStr':
        return ('str', v)
    raise ValueError('no neutral form for %r' % (v,))


def numtext_value(txt):
    txt = plain(txt)
    if txt == 'INF':
        return float('inf')
    if txt == '-INF':
        return float('-inf')
    if txt == 'NaN':
        return float('nan')
    return float(txt)


def frac_to_us(frac):
    frac = plain(frac)
    return int((frac + '000000')[:6]) if frac else 0


def same(a, b, opts=None):
    """a: neutral tree of the original value, b: tree from the reference reader -> True/False/formula"""
    opts = opts or {}
    ta, tb = a[0], b[0]
    if ta == 'numval':
        if tb not in ('num', 'numval'):
            return False
        x, y = a[1], (numtext_value(b[1]) if tb == 'num' else b[1])
        if x != x or y != y:
            ok = (x != x) and (y != y)
        elif opts.get('six_decimals') and x != y and abs(x) != float('inf') and abs(y) != float('inf'):
            ok = abs(x - y) <= 5.1e-7
        else:
            ok = (x == y)
        return b_and(ok, txt_same(a[2], b[2]))
    if ta == 'timeval':
        if tb != 'time':
            return False
        t = a[1]
        return plain(b[1]) == '%02d:%02d:%02d' % (t.hour, t.minute, t.second) and frac_to_us(b[2]) == t.microsecond
    if ta == 'dtval':
        if tb != 'datetime':
            return False
        d = a[1]
        _, date, hms, frac, off, tz = b
        date, hms, off, tz = plain(date), plain(hms), plain(off), plain(tz)
        naive = d.replace(tzinfo=None)
        if off is None:
            return False
        sign = -1 if off[0] == '-' else 1
        delta = sign * datetime.timedelta(hours=int(off[1:3]), minutes=int(off[4:6]))
        if opts.get('dt_instant'):
            # same instant (the reader may re-express it in the named zone)
            try:
                written = datetime.datetime.strptime(date + ' ' + hms, '%Y-%m-%d %H:%M:%S').replace(microsecond=frac_to_us(frac)) - delta
                got = naive - d.utcoffset()
            except (OverflowError, ValueError):
                return True
            if written != got:
                return False
        else:
            if date != naive.date().isoformat() or hms != naive.strftime('%H:%M:%S') or frac_to_us(frac) != naive.microsecond:
                return False
            if d.utcoffset() != delta:
                return False
        if opts.get('zone_names', True):
            zone = getattr(d.tzinfo, 'zone', None)
            if zone is not None:
                if tz is None or tz != zone.split('/')[-1]:
                    return False
            elif tz is None:
                return False
            else:
                # a value with a foreign (fixed-offset) tzinfo: the zone written must have that offset at that instant
                import pytz
                cands = [n for n in pytz.all_timezones if n == tz or n.endswith('/' + tz)]
                if not cands:
                    return False
                if not any(d.astimezone(pytz.timezone(n)).utcoffset() == d.utcoffset() for n in cands):
                    return False
        return True
    if ta == 'coordval':
        if tb != 'coord':
            return False
        return abs(float(plain(b[1])) - a[1]) <= 5.1e-7 and abs(float(plain(b[2])) - a[2]) <= 5.1e-7
    if ta != tb:
        return False
    if ta in ('null', 'marker', 'remove', 'na'):
        return True
    if ta == 'bool':
        return a[1] == b[1]
    if ta in ('str', 'uri', 'bin', 'date'):
        return txt_same(a[1], b[1])
    if ta == 'ref':
        return b_and(txt_same(a[1], b[1]), txt_same(a[2], b[2]))
    if ta == 'xstr':
        enc = plain(b[1])
        if enc == 'hex':
            return b_and(txt_same(a[1], b[1]), plain(a[2]).lower() == plain(b[2]).lower())
        if enc == 'b64':
            import base64
            try:
                return b_and(txt_same(a[1], b[1]), base64.b64decode(plain(a[2])) == base64.b64decode(plain(b[2])))
            except Exception:
                return True
        return b_and(txt_same(a[1], b[1]), txt_same(a[2], b[2]))
    if ta == 'list':
        if len(a[1]) != len(b[1]):
            return False
        return b_and(*[same(x, y, opts) for x, y in zip(a[1], b[1])])
    if ta == 'dict':
        if len(a[1]) != len(b[1]):
            return False
        if opts.get('ordered_dict', True):
            return b_and(*[b_and(txt_same(k1, k2), same(v1, v2, opts)) for (k1, v1), (k2, v2) in zip(a[1], b[1])])
        d2 = dict(b[1])
        if set(k for k, _ in a[1]) != set(d2):
            return False
        return b_and(*[same(v1, d2[k1], opts) for k1, v1 in a[1]])
    if ta == 'grid':
        if len(a[2]) != len(b[2]) or len(a[3]) != len(b[3]) or len(a[4]) != len(b[4]):
            return False
        out = [txt_same(a[1], b[1])]
        for (k1, v1), (k2, v2) in zip(a[2], b[2]):
            out += [txt_same(k1, k2), same(v1, v2, opts)]
        for (c1, m1), (c2, m2) in zip(a[3], b[3]):
            if len(m1) != len(m2):
                return False
            out.append(txt_same(c1, c2))
            for (k1, v1), (k2, v2) in zip(m1, m2):
                out += [txt_same(k1, k2), same(v1, v2, opts)]
        for r1, r2 in zip(a[4], b[4]):
            if len(r1) != len(r2):
                return False
            out += [same(x, y, opts) for x, y in zip(r1, r2)]
        return b_and(*out)
    raise ValueError(ta)
