"""E1: generate CrossHair harness modules from the live repository and run
`crosshair check` per condition; map verdicts strictly; replay counterexamples
on plain CPython."""
import os
import re
import subprocess
import sys
import time
from concurrent.futures import ThreadPoolExecutor

from . import common

HEADER = '''\
import os, sys, io, warnings, contextlib, copy
warnings.simplefilter('ignore')
sys.path.insert(0, os.environ.get('HSZINC_REPO', '/repo'))
with contextlib.redirect_stdout(io.StringIO()):
    import hszinc
from typing import *
'''

LINE_RE = re.compile(r'^(?P<file>[^:\n]+\.py):(?P<line>\d+): (?P<kind>error|info|warning): (?P<msg>.*)$')
CALL_RE = re.compile(r'when calling (?P<call>[A-Za-z_][A-Za-z_0-9]*\(.*?\))(?: \(which (?:returns|raises).*\))?$', re.S)


class Harness:
    def __init__(self, name, src, timeout=20, core=True, reach=True, kf_key=None,
                 what=None, path_timeout=None):
        self.name = name
        self.src = src.strip('\n') + '\n'
        self.timeout = timeout
        self.core = core
        self.reach = reach
        self.kf_key = kf_key
        self.what = what or name
        self.path_timeout = path_timeout
        self.result = None


def _reach_twin(h):
    """Same body and preconditions, post-condition False: must be refuted."""
    src = h.src
    src = re.sub(r'def %s\(' % re.escape(h.name), 'def %s__reach(' % h.name, src, count=1)
    lines = []
    for ln in src.split('\n'):
        if re.match(r'\s*post(\[.*\])?:', ln):
            ind = ln[:len(ln) - len(ln.lstrip())]
            if not any(l.strip() == 'post: False' for l in lines):
                lines.append(ind + 'post: False')
        else:
            lines.append(ln)
    return '\n'.join(lines)


def _run_one(crosshair, file, line, timeout, path_timeout, env):
    cmd = [crosshair, 'check', '--report_all', '--analysis_kind', 'PEP316',
           '--per_condition_timeout', str(timeout)]
    if path_timeout:
        cmd += ['--per_path_timeout', str(path_timeout)]
    cmd.append('%s:%d' % (file, line))
    t0 = time.time()
    try:
        p = subprocess.run(cmd, capture_output=True, text=True, env=env,
                           timeout=timeout * 3 + 60)
        out, err, rc = p.stdout, p.stderr, p.returncode
    except subprocess.TimeoutExpired as e:
        out, err, rc = (e.stdout or ''), 'outer timeout', 124
        if isinstance(out, bytes):
            out = out.decode('utf-8', 'replace')
    return out, err, rc, time.time() - t0


def _parse(out):
    """-> list of (kind, msg) for crosshair report lines; multi-line messages
    are joined to the report line that started them."""
    res = []
    cur = None
    for ln in out.split('\n'):
        m = LINE_RE.match(ln)
        if m:
            cur = [m.group('kind'), m.group('msg')]
            res.append(cur)
        elif cur is not None and ln.strip():
            cur[1] += '\n' + ln
    return [(k, m) for k, m in res]


def run_harnesses(chk, prelude, harnesses, module_name=None):
    """prelude: module-level source (helpers, catalogues generated from the
    live repo).  Each harness is one function with a PEP316 docstring returning
    True when the property holds on that input."""
    module_name = module_name or ('h_%s' % chk.prop.lower())
    scratch = common.scratch_dir()
    try:
        return _run(chk, prelude, harnesses, module_name, scratch)
    finally:
        common.rm_rf(scratch)


def _run(chk, prelude, harnesses, module_name, scratch):
    path = os.path.join(scratch, module_name + '.py')
    parts = [HEADER, prelude]
    for h in harnesses:
        parts.append(h.src)
        if h.reach:
            parts.append(_reach_twin(h))
    src = '\n\n'.join(parts)
    with open(path, 'w') as f:
        f.write(src)
    # sanity: the module must import on plain python
    env = dict(os.environ)
    env['HSZINC_REPO'] = common.REPO
    env.pop('PYTHONPATH', None)
    pyexe = sys.executable
    p = subprocess.run([pyexe, '-c', 'import sys; sys.path.insert(0, %r); import %s' % (scratch, module_name)],
                       capture_output=True, text=True, env=env)
    if p.returncode != 0:
        chk.fault('harness module does not import: %s' % p.stderr[-600:])
        return
    lines = src.split('\n')
    def_line = {}
    for i, ln in enumerate(lines, 1):
        m = re.match(r'def ([A-Za-z_0-9]+)\(', ln)
        if m:
            def_line[m.group(1)] = i
    crosshair = os.path.join(os.path.dirname(pyexe), 'crosshair')
    jobs = []
    for h in harnesses:
        jobs.append((h, h.name, h.timeout))
        if h.reach:
            jobs.append((h, h.name + '__reach', min(h.timeout, 20)))

    def work(job):
        h, fname, timeout = job
        return job, _run_one(crosshair, path, def_line[fname] + 1, timeout, h.path_timeout, env)

    with ThreadPoolExecutor(max_workers=common.NCPU) as ex:
        results = list(ex.map(work, jobs))

    by = {}
    for (h, fname, timeout), (out, err, rc, wall) in results:
        by[fname] = (h, out, err, rc, wall)
    for h in harnesses:
        _, out, err, rc, wall = by[h.name]
        reports = _parse(out)
        errors = [m for k, m in reports if k == 'error']
        infos = [m for k, m in reports if k == 'info']
        chk.n_solver_queries += 1
        chk.functions.add('harness:' + h.name)
        reach_ok = True
        if h.reach:
            _, rout, rerr, rrc, rwall = by[h.name + '__reach']
            reach_ok = any(k == 'error' for k, _ in _parse(rout))
        if errors:
            _handle_errors(chk, h, errors, src, module_name, wall)
        elif rc == 124 or not reports:
            chk.query(h.name, 'inconclusive', wall, detail=(err or out)[-300:])
            if rc not in (0, 1, 124) and h.core:
                chk.fault('crosshair failed on %s: %s' % (h.name, (err or out)[-400:]))
        elif any('Confirmed over all paths' in m for m in infos):
            if not reach_ok:
                chk.query(h.name, 'inconclusive', wall, detail='vacuous: reach twin not refuted')
                chk.fault('vacuous harness %s' % h.name)
            else:
                chk.query(h.name, 'confirmed', wall)
                chk.n_paths += 1
                chk.n_nontrivial += 1
        elif any('Unable to meet precondition' in m for m in infos):
            chk.query(h.name, 'inconclusive', wall, detail='unable to meet precondition')
            if h.core and not reach_ok:
                chk.fault('vacuous harness %s (precondition never met)' % h.name)
        else:
            # "Not confirmed." : no counterexample within the budget
            chk.query(h.name, 'not_confirmed', wall, detail='; '.join(infos)[:200])
            chk.inconclusive.append(h.name)
            if not reach_ok:
                chk.fault('vacuous harness %s' % h.name)
            else:
                chk.n_nontrivial += 1
    return by


def replay_body(src, module_name, call, hname):
    return ('\n# ---- generated harness module (verbatim) ----\n'
            '_SRC = %r\n'
            '_ns = {"__name__": "%s"}\n'
            'with contextlib.redirect_stdout(io.StringIO()):\n'
            '    exec(compile(_SRC, "%s.py", "exec"), _ns)\n'
            'try:\n'
            '    with contextlib.redirect_stdout(io.StringIO()):\n'
            '        _r = eval(%r, _ns)\n'
            'except Exception as _e:\n'
            '    VIOLATED("%s: %%s: %%s on %%s" %% (type(_e).__name__, _e, %r))\n'
            'if _r is not True:\n'
            '    VIOLATED("%s returned %%r on %%s" %% (_r, %r))\n'
            'HOLDS()\n') % (src, module_name, module_name, call, hname, call, hname, call)


def _handle_errors(chk, h, errors, src, module_name, wall):
    for msg in errors[:3]:
        m = CALL_RE.search(msg)
        if not m:
            chk.query(h.name, 'inconclusive', wall, detail='unparsed: ' + msg[:300])
            chk.fault('cannot parse crosshair counterexample for %s: %s' % (h.name, msg[:300]))
            continue
        call = m.group('call')
        body = replay_body(src, module_name, call, h.name)
        verdict = chk.candidate(h.name, body, '%s: %s' % (h.what, call), kf_key=h.kf_key, model=call)
        chk.query(h.name, 'counterexample:' + verdict, wall, model=call[:300],
                  message=msg.split(' when calling')[0][:200])
        chk.samples.append({'harness': h.name, 'counterexample': call[:300], 'replay': verdict})
        if verdict in ('violation', 'known'):
            break
