"""C12 helpers (plain CPython, no solver): is a generated filter source free of code taken from the filter text?
and: run Grid.filter under an audit hook with canary payloads."""
import ast
import builtins
import contextlib
import io
import sys


def allowed_names(GF):
    """names a generated filter function may reference: its own parameters and the objects the filter module defines
    itself at top level (helpers, sentinels, tables) - never builtins and never anything the module merely imports"""
    import inspect
    ok = set()
    try:
        tree = ast.parse(inspect.getsource(GF))
    except (OSError, TypeError):
        tree = ast.parse(open(GF.__spec__.origin).read())
    for node in tree.body:
        if isinstance(node, (ast.FunctionDef, ast.ClassDef)):
            ok.add(node.name)
        elif isinstance(node, ast.Assign):
            for t in node.targets:
                if isinstance(t, ast.Name):
                    ok.add(t.id)
    # grammar elements are data too, but a filter function has no business with them
    return {n for n in ok if not n.startswith('hs_')}


def source_problem(src, GF):
    """None if the source of a generated filter function contains only: boolean operators, comparisons, calls of
    hszinc's own helpers, the function's parameters, literal constants, subscripts with constant index and lists of
    constants.  Otherwise a description of the offending construct."""
    try:
        tree = ast.parse(src)
    except SyntaxError as e:
        return 'generated source is not valid Python: %s' % e
    if len(tree.body) != 1 or not isinstance(tree.body[0], ast.FunctionDef):
        return 'generated source is not a single function definition'
    fn = tree.body[0]
    params = {a.arg for a in fn.args.args + fn.args.kwonlyargs}
    names = allowed_names(GF) | params
    if len(fn.body) != 1 or not isinstance(fn.body[0], ast.Return):
        return 'generated function body is not a single return'
    for d in fn.args.defaults + [x for x in fn.args.kw_defaults if x is not None]:
        p = _expr_problem(d, names, top=False)
        if p:
            return 'default argument: ' + p
    return _expr_problem(fn.body[0].value, names)


def _expr_problem(n, names, top=True):
    if isinstance(n, ast.Constant):
        return None
    if isinstance(n, ast.Name):
        return None if n.id in names else 'name %r is not one of hszinc\'s own helpers' % n.id
    if isinstance(n, (ast.List, ast.Tuple)):
        for e in n.elts:
            p = _expr_problem(e, names)
            if p:
                return p
        return None
    if isinstance(n, ast.BoolOp):
        for e in n.values:
            p = _expr_problem(e, names)
            if p:
                return p
        return None
    if isinstance(n, ast.UnaryOp) and isinstance(n.op, (ast.Not, ast.USub)):
        return _expr_problem(n.operand, names)
    if isinstance(n, ast.Compare):
        for e in [n.left] + n.comparators:
            p = _expr_problem(e, names)
            if p:
                return p
        return None
    if isinstance(n, ast.Subscript):
        if not isinstance(n.slice, ast.Constant):
            return 'subscript with a non-constant index'
        return _expr_problem(n.value, names)
    if isinstance(n, ast.Call):
        if not isinstance(n.func, ast.Name):
            return 'call of %s' % ast.dump(n.func)[:60]
        if n.func.id != 'id' and n.func.id not in names:
            return 'call of %r, which is not one of hszinc\'s own helpers' % n.func.id
        for e in list(n.args) + [k.value for k in n.keywords]:
            p = _expr_problem(e, names)
            if p:
                return p
        return None
    return 'construct %s' % type(n).__name__


CANARY_FILTERS = [
    'x == __import__("os").system("true")', 'x == len("abc")', 'x == eval("1")', 'x == open("/tmp/hszinc_c12_canary","w")', 'x == exec("CANARY.append(1)")',
    'x == print("pwn")', 'x == CANARY.append(1)', 'x == __import__("builtins")', 'x == compile("1","s","eval")', 'x == globals()',
    'x == "\\" + CANARY.append(1) + \\""', 'x == "\' + str(CANARY.append(1)) + \'"', 'x == `" or CANARY.append(1) or "`', 'x == @a"b', 'x == @a "\\" or CANARY.append(1) or \\""',
    'x == getattr("a","upper")', 'x == type("a")', 'x == __class__("a")', 'x == exit("1")', 'x == setattr("a")', 'x == vars("a")', 'x == dir("a")',
    'x == 5__import__', 'x == 5CANARY', 'CANARY', 'CANARY.append', '__import__', 'exec', 'x == [CANARY("a")]', 'x == {a:exec("1")}', 'x == C(1,2) or CANARY',
    'x == 2020-01-01T00:00:00Z CANARY', 'not exec', 'exec->eval', 'x->__class__', 'x == true and eval', 'lambda', 'x == Bin(exec)', 'x == Bin(CANARY.append(1))',
    # type names that are also names of codecs, modules, units: a literal's type name selects nothing outside the filter
    'x == rot13("abc")', 'x != uu_codec("abc")', 'x == punycode("abc")', 'x == idna("a") or x == cp037("abc")', 'x == quopri("a=b")', 'x == bz2_codec("abc")', 'x == os("abc")',
    'x == json("abc") or x == Decimal("1.5")', 'y < 3zorkmid', 'y == 1antigravity',
    'x == hex("00") or y == b64("AA==")', 'x == NOT_FOUND("a")', 'x == _get_path("a")', 'x == filter_function("y == exec(\\"1\\")")',
]


def tokens_problem(hz, text):
    """None, or which token of the (accepted) filter is not a well-formed Haystack token"""
    import re
    GF = sys.modules['hszinc.grid_filter']
    D = sys.modules['hszinc.datatypes']
    FA = sys.modules['hszinc.filter_ast']
    with contextlib.redirect_stdout(io.StringIO()):
        ast_ = GF.parse_filter(text)
    bad = []

    def lit(v):
        if isinstance(v, D.Ref):
            if not re.match(r'^[A-Za-z0-9_:.~-]*\Z', v.name):
                bad.append('reference name %r' % v.name)
        elif isinstance(v, D.XStr):
            if not re.match(r'^[A-Za-z0-9_]+\Z', v.encoding):
                bad.append('type name %r' % v.encoding)
        elif isinstance(v, list):
            for x in v:
                lit(x)
        elif isinstance(v, dict) or type(v).__name__ in ('SortableDict', 'MetadataObject'):
            for k in list(v.keys()):
                if not re.match(r'^[a-z][A-Za-z0-9_]*\Z', k):
                    bad.append('tag name %r' % k)
                lit(v[k])

    def walk(n):
        if isinstance(n, FA.FilterAST):
            walk(n._head)
        elif isinstance(n, FA.FilterPath):
            for name in n.path:
                if not re.match(r'^[a-z][A-Za-z0-9_]*\Z', name):
                    bad.append('tag name %r' % name)
        elif isinstance(n, FA.FilterBinary):
            walk(n.left)
            walk(n.right)
        elif isinstance(n, FA.FilterUnary):
            walk(n.right)
        else:
            lit(n)
    walk(ast_)
    return ('accepted although it holds an ill-formed %s' % bad[0]) if bad else None


def global_state():
    """what a program can see of hszinc's module-level state: every module global's identity and, for containers, size"""
    st = {}
    for name, mod in list(sys.modules.items()):
        if mod is None or not (name == 'hszinc' or name.startswith('hszinc.')):
            continue
        for attr, val in list(vars(mod).items()):
            if attr.startswith('_gen_hsfilter_'):
                continue            # the compiled filter functions themselves (bounded by the LRU cache)
            if attr == '__warningregistry__':
                # the interpreter's per-module record of warnings already shown: its 'version' stamp and the library deprecation
                # warnings (fixed text, once per process) come and go with the warning filters; what counts is an entry for any
                # other warning, which is keyed by the warning's text
                st[(name, attr)] = frozenset(k for k in val if isinstance(k, tuple) and not (isinstance(k[1], type) and issubclass(k[1], DeprecationWarning)))
                continue
            size = len(val) if type(val) in (dict, list, set) else None
            st[(name, attr)] = (id(val), size)
    return st


def state_changes(before, after):
    out = []
    for k in sorted(set(before) | set(after)):
        b, a = before.get(k), after.get(k)
        if k[1] == '__warningregistry__':
            if (a or frozenset()) - (b or frozenset()):
                out.append('%s.%s (new entry %r)' % (k[0], k[1], sorted((a or frozenset()) - (b or frozenset()), key=repr)[0][0][:60]))
        elif b != a:
            out.append('%s.%s' % k)
    return out


def pint_canary(hz):
    """with pint units switched on: a filter holding an unknown unit leaves the shared unit registry as it was.  -> list of (text, problem)"""
    problems = []
    try:
        import pint  # noqa
    except Exception:
        return problems
    try:
        hz.use_pint(True)
    except Exception:
        return problems
    try:
        ureg = hz.ureg
        names = ['zorkmid', 'blorpunit', 'qqzz']
        g = hz.Grid(version='3.0', columns=[('id', []), ('power', [])])
        g.append({'id': 'a', 'power': 5})
        for n in names:
            text = 'power < 3%s' % n
            before = (n in ureg)
            with contextlib.redirect_stdout(io.StringIO()), contextlib.redirect_stderr(io.StringIO()):
                try:
                    g.filter(text)
                except Exception:
                    pass
            if (n in ureg) != before:
                problems.append((text, 'the unit %r named by the filter is now defined in the shared unit registry (hszinc.ureg)' % n))
    finally:
        hz.use_pint(False)
    return problems


def audit_run(hz, texts):
    """run Grid.filter for each text under an audit hook; -> list of (text, problem)"""
    import warnings
    GF = sys.modules['hszinc.grid_filter']
    # warm-up: lazily built tables (zone maps, ...) exist before the first snapshot
    # (under the same default warning filters as the audited runs: library deprecation warnings with a fixed text are
    # registered once per process and are not derived from the filter)
    with warnings.catch_warnings():
        warnings.simplefilter('default')
        with contextlib.redirect_stdout(io.StringIO()), contextlib.redirect_stderr(io.StringIO()):
            wg = hz.Grid(version='3.0', columns=[('id', []), ('x', [])])
            wg.append({'id': 'a', 'x': 1})
            for w in ('x == 2020-01-01T00:00:00+01:00 Paris', 'x == 2020-01-01T00:00:00Z', 'x == 5kW and x != `u` or not x->y', 'x == [1, {a:"b"}, Tx("p")]', 'x == 2020-02-29 or x == 12:30:00'):
                try:
                    wg.filter(w)
                except Exception:
                    pass
    builtins.CANARY = []
    state = dict(armed=False, events=[], sources=[])

    def hook(ev, args):
        if not state['armed']:
            return
        if ev in ('os.system', 'subprocess.Popen', 'socket.connect', 'socket.bind', 'os.exec', 'os.posix_spawn', 'ctypes.dlopen'):
            state['events'].append((ev, repr(args)[:80]))
        elif ev == 'open' and len(args) > 1 and isinstance(args[1], str) and any(m in args[1] for m in 'wax+'):
            state['events'].append((ev, repr(args)[:80]))
        elif ev == 'compile' and args and isinstance(args[0], (str, bytes)):
            state['sources'].append(args[0] if isinstance(args[0], str) else args[0].decode('utf-8', 'replace'))
    sys.addaudithook(hook)
    problems = []
    for text in texts:
        g = hz.Grid(version='3.0', columns=[('id', []), ('x', []), ('y', [])])
        rows = [{'id': 'a', 'x': 'abc', 'y': 1}, {'id': 'b', 'x': hz.XStr('len', 'abc')}, {'id': 'c'}]
        for r in rows:
            g.append(r)
        before_rows = [dict(r) for r in rows]
        before_globals = set(vars(GF))
        state['events'], state['sources'] = [], []
        builtins.CANARY[:] = []
        before_state = global_state()
        before_modules = set(sys.modules)
        state['armed'] = True
        try:
            # the interpreter's default warning filters (what a program that did not configure warnings has): a warning raised
            # with text from the filter leaves an entry in the module's __warningregistry__
            with warnings.catch_warnings():
                warnings.simplefilter('default')
                with contextlib.redirect_stdout(io.StringIO()), contextlib.redirect_stderr(io.StringIO()):
                    try:
                        g.filter(text)
                        outcome = 'evaluated'
                    except Exception as e:
                        import pyparsing
                        outcome = 'rejected' if isinstance(e, (pyparsing.ParseBaseException, ValueError)) else 'raised %s: %s' % (type(e).__name__, str(e)[:80])
        finally:
            state['armed'] = False
        after_state = global_state()
        changed = state_changes(before_state, after_state)
        if changed:
            problems.append((text, 'module-level state changed: %s' % ', '.join(changed[:4])))
        # a module that appears during evaluation and whose name is spelled in the filter text was chosen by the filter (the
        # standard library's own lazy imports, e.g. _strptime on the first date literal, are not)
        import re as _re
        toks = set(_re.sub(r'[^a-z0-9]', '', t.lower()) for t in _re.findall(r'[A-Za-z_][A-Za-z0-9_]*', text))
        toks = set(t for t in toks if len(t) >= 2)
        new_modules = sorted(m for m in set(sys.modules) - before_modules
                             if any(_re.sub(r'[^a-z0-9]', '', part.lower()) in toks for part in m.split('.')))
        if new_modules:
            problems.append((text, 'evaluating the filter imported %s' % ', '.join(new_modules[:4])))
        if outcome.startswith('raised'):
            problems.append((text, 'not a parse error: ' + outcome))
        if outcome == 'evaluated':
            tp = tokens_problem(hz, text)
            if tp:
                problems.append((text, tp))
        if builtins.CANARY:
            problems.append((text, 'code from the filter text ran (canary set)'))
        if state['events']:
            problems.append((text, 'side effect during evaluation: %r' % (state['events'][:2],)))
        for src in state['sources']:
            if 'def ' in src:
                p = source_problem(src, GF)
                if p:
                    problems.append((text, 'generated source contains %s' % p))
        if [dict(r) for r in g] != before_rows or len(g) != 3:
            problems.append((text, 'the grid was modified'))
        new = set(vars(GF)) - before_globals
        if any(not n.startswith('_gen_hsfilter_') for n in new):
            problems.append((text, 'new module globals: %r' % sorted(new)[:3]))
    return problems
