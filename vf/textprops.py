"""Parent-side runner for the text-pipeline jobs (see textworker.py)."""
import json
import os
import subprocess
import sys
import time
from concurrent.futures import ThreadPoolExecutor

from . import common

FIRST_CHAR_SPLIT = [[[0, 0x1f]], [[0x20, 0x7f]], [[0x80, 0xffff]], [[0x10000, 0x10ffff]]]
FINE_SPLIT = [[[0, 0x0f]], [[0x10, 0x1f]], [[0x20, 0x2f]], [[0x30, 0x5b]], [[0x5c, 0x5f]], [[0x60, 0x7f]], [[0x80, 0x7ff]], [[0x800, 0xffff]], [[0x10000, 0x10ffff]]]


def job_name(j):
    s = '%s-%s-%s-v%s-N%d' % (j['fmt'], j['kind'], j.get('position', 'all'), j['version'], j['N'])
    if j.get('multi'):
        s += '-multi'
    if j.get('extra'):
        s += '-' + j['extra']
    if j.get('alphabet'):
        s += '-meta'
    if j.get('kind2'):
        s += '-with-%s' % j['kind2']
    if j.get('split'):
        s += '-c0in%x_%x' % (j['split'][0][0], j['split'][-1][1])
    return s


def expand_split(jobs):
    out = []
    for j in jobs:
        if j['N'] >= 2 and j['fmt'] == 'zinc' and not j.get('split') and not j.get('alphabet') and not j.get('kind2'):
            from .textworker import ALPHABET
            alpha = ALPHABET.get(j['kind'])
            for dom in (FINE_SPLIT if j.get('fine_split') else FIRST_CHAR_SPLIT):
                if alpha is not None and not any(lo <= dom[0][1] and hi >= dom[0][0] for lo, hi in alpha):
                    continue        # the kind's alphabet has no character in this class
                jj = dict(j)
                jj['split'] = dom
                out.append(jj)
        else:
            out.append(j)
    return out


def run_jobs(chk, jobs, module='vf.textworker', replay_fn='replay'):
    jobs = expand_split(jobs)
    # longest first
    jobs.sort(key=lambda j: (-j['N'], j['fmt'] != 'zinc'))
    env = dict(os.environ)
    env['HSZINC_REPO'] = common.REPO
    env['PYTHONPATH'] = common.VERIF
    pyexe = sys.executable

    def work(j):
        t0 = time.time()
        try:
            p = subprocess.run([pyexe, '-m', module, json.dumps(j)], capture_output=True, text=True, env=env,
                               timeout=j.get('timeout', 300) * 2 + 120, cwd=common.VERIF)
            out, err = p.stdout, p.stderr
        except subprocess.TimeoutExpired:
            out, err = '', 'outer timeout'
        res = None
        for ln in out.split('\n'):
            if ln.startswith('TEXT-RESULT '):
                res = json.loads(ln[len('TEXT-RESULT '):])
        return j, res, err, time.time() - t0

    with ThreadPoolExecutor(max_workers=common.NCPU) as ex:
        results = list(ex.map(work, jobs))
    funcs = set()
    for j, res, err, wall in results:
        name = job_name(j)
        if res is None or res.get('status') == 'fault':
            chk.query(name, 'inconclusive', wall, detail=((res or {}).get('error') or err)[-500:])
            chk.fault('worker failed for %s: %s' % (name, ((res or {}).get('error') or err)[-500:]))
            continue
        funcs.update(res.get('functions', []))
        chk.n_paths += res['paths']
        chk.n_solver_queries += res['checks']
        chk.solver_s += res['solver_s']
        chk.n_nontrivial += res['nontrivial']
        kw = dict(paths=res['paths'], aborted=res['aborted'], solver_checks=res['checks'], solver_s=res['solver_s'])
        if res.get('samples') and len(chk.samples) < 10:
            chk.samples.append({'job': name, 'path_model_payload': res['samples'][0]})
        for f in (res.get('catalog_failures') or [])[:6]:
            body = ('sys.path.insert(0, %r)\n'
                    'import importlib\n'
                    'tw = importlib.import_module(%r)\n'
                    'job = %r\npayload = %r\n'
                    'msg = getattr(tw, %r)(hszinc, job, payload)\n'
                    'if msg is not None:\n'
                    '    VIOLATED("%%s -- job %%r catalogue entry %%r" %% (msg, job, payload))\n'
                    'HOLDS()\n') % (common.VERIF, module, j, [f['index'], f['position']], replay_fn)
            what = '%s: catalogue value %s at %s: %s' % (name, f['value'], f['position'], f['what'][:160])
            verdict = chk.candidate(name + '-cat%d' % f['index'], body, what, kf_key=j.get('kf_key'), model=f['value'])
            chk.query(name + '-cat%d-%s' % (f['index'], f['position']), 'counterexample:' + verdict, 0.0, model=f['value'], message=f['what'][:200])
            chk.samples.append({'job': name, 'catalogue_value': f['value'], 'position': f['position'], 'replay': verdict})
        if res.get('catalog_failures'):
            continue
        if 'cex' in res:
            payload = res['cex']['payload']
            body = ('sys.path.insert(0, %r)\n'
                    'import importlib\n'
                    'tw = importlib.import_module(%r)\n'
                    'job = %r\npayload = %r\n'
                    'msg = getattr(tw, %r)(hszinc, job, payload)\n'
                    'if msg is not None:\n'
                    '    VIOLATED("%%s -- job %%r payload %%r" %% (msg, job, payload))\n'
                    'HOLDS()\n') % (common.VERIF, module, j, payload, replay_fn)
            what = '%s: %s; payload %r' % (name, res['cex']['what'], payload)
            verdict = chk.candidate(name, body, what, kf_key=j.get('kf_key'), model=payload)
            chk.query(name, 'counterexample:' + verdict, wall, model=repr(payload), message=res['cex']['what'], **kw)
            chk.samples.append({'job': name, 'counterexample_payload': payload, 'what': res['cex']['what'], 'replay': verdict})
            if verdict == 'spurious':
                chk.fault('non-reproducing model for %s: payload %r (%s)' % (name, payload, res['cex']['what']))
        elif res['errors']:
            chk.query(name, 'inconclusive', wall, detail='; '.join(res['errors'])[:300], **kw)
            chk.fault('unsupported operation in %s: %s' % (name, res['errors'][0][:300]))
        elif res['status'] == 'exhausted':
            if res['reached'] == 0:
                chk.query(name, 'inconclusive', wall, detail='vacuous: the assertion was never reached', **kw)
                chk.fault('vacuous job %s' % name)
            else:
                chk.query(name, 'unsat:holds', wall, reached=res['reached'], **kw)
        else:
            chk.query(name, 'budget:no-counterexample', wall, reached=res['reached'], **kw)
            chk.inconclusive.append(name)
    chk.functions.update(funcs)
    return results
