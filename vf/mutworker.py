"""Worker for the ZINC reader properties C03 and C09: one symbolic character is substituted into (or inserted in)
a concrete well-formed document at every position; the real hszinc reader and the independent reference reader
both run on the resulting symbolic text.

    python -m vf.mutworker '<job json>'  ->  MUT-RESULT <json>
"""
import contextlib
import io
import json
import sys
import time
import traceback
import warnings

warnings.simplefilter('ignore')
try:
    import z3
    from .symx import core, sstr, instr
    from .symx.sstr import SymStr, mks
    from .symx.symre import to_z3
except ImportError:
    z3 = None
from . import common, neutral
import re as _re_mod
import pyparsing as pp
_SAFE_RE = None
from . import textworker as tw

# reference rejections that correspond to the structural breakages the property names
STRUCTURAL = ('unterminated literal', 'illegal escape', 'bad \\u escape', 'raw control character in literal',
              "expected ']'", "expected '>>'", "expected 'ver:'", 'expected id', "expected '\"'", "expected '`'",
              '3.0-only construct in a 2.0 grid', 'illegal tag name')

GRID_DOCS = {
    'basic2': 'ver:"2.0"\nname,val\n"a b",12.5kW\n"x",N\n',
    'meta3': 'ver:"3.0" dis:"Site \\"A\\"" mk num:-4.2e-3 when:2020-02-29\nid dis:"Id" foo,ts,loc unit:"m"\n@a.b-c:1 "Disp",2021-03-04T05:06:07.5+01:00 Paris,C(37.5,-122.25)\nR,12:30:00 , `http://x/a?b=c`\n',
    'coll3': 'ver:"3.0"\nv\n[1, "two" , T ,]\n{a:1 b mk:"x"}\n<<ver:"3.0"\nn\n[5]\n>>\nNA\nBin("text/plain")\n',
    'esc2': 'ver:"2.0"\na,b\n"q\\" \\\\ \\$ \\n \\u00e9 \\t",`u\\`x\\u00e9\\\\`\nBin(text/plain),M\n',
    'crlf3': 'ver:"3.0" tag\r\na, b\r\n1_000 , INF\r\n-INF,NaN\r\n5,\r\n,F\r\n',
    'two3': 'ver:"3.0"\na\n1\n\nver:"3.0"\nb\n"s"\n',
    'dt2': 'ver:"2.0"\nt\n2020-01-02t03:04:05z\n2020-01-02T03:04:05Z UTC\n2020-06-01T00:00:00-04:00 New_York\n23:59:59.999\n',
}
C07_DOCS = {
    'dtfix': 'ver:"3.0"\nt\n2020-01-15T12:00:00-07:00\n2020-07-15T12:00:00-07:00\n2020-03-08T02:30:00-07:00\n',
    'dtfix2': 'ver:"2.0"\nt\n2020-07-15T12:00:00-07:00\n2020-01-15T12:00:00-07:00\n2021-11-07T01:30:00+05:45\n',
    'ver25': 'ver:"2.5" a:1\nx\n"s"\n',
    'ver300': 'ver:"3.0.0"\nx\n[1]\nNA\n',
    'refs': 'ver:"3.0"\nr,s\n@e "",""\n@f "x",`u`\n@g,``\n',
    'old': 'ver:"3.0" since:0987-06-05\nd,t,l\n0079-08-24,0099-12-31T23:59:59Z UTC,[0001-01-01]\n0999-12-31,1000-01-01T00:00:00Z UTC,\n',
    'verq': 'ver:"3.0 \\"site\\\\build\\"" a:"x"\nc\n<<ver:"3.0-rc\\"1\\""\nk\n1\n>>\n',
    'bignum': 'ver:"3.0" big:12345678901234567890 tiny:1.5E-5\nn,q\n18446744073709551615,123456789012345.678ns\n1.2345678901234567E25,9007199254740993\n-9.87654321987e17,1e16\n',
    'fold': 'ver:"2.0"\nt\n2016-10-30T02:30:00+02:00 Berlin\n2016-10-30T02:30:00+01:00 Berlin\n2021-01-15T08:00:00-03:30 St_Johns\n',
}
SINGLE_TOO = ('two3', 'crlf3', 'basic2')       # documents also parsed through the single=True entry point
FILTER_DOCS = {
    'f_and': 'site and equip', 'f_or': 'not ahu or (temp and sensor)', 'f_path': 'siteRef->geoCity == "Chi\\"ca$go"'.replace('$', '\\$'),
    'f_qty': 'curVal >= 75.5kW', 'f_uri': 'x == `http://a/b`', 'f_ref': 'r != @abc-1 "Dis"', 'f_date': 'd == 2020-02-29', 'f_time': 'h < 12:30:00',
    'f_xstr': 'x == Span("2020")', 'f_bool': 'b == true and c == false', 'f_list': 'l == [1, "a"]', 'f_dict': 'd == {a:1 b}', 'f_inf': 'n == INF',
    'f_coord': 'c == C(1.5,2.5)', 'f_bin': 'x == Bin(text/plain)', 'f_dt': 'ts > 2020-01-01T00:00:00Z UTC', 'f_null': 'v == N or w != M or q == NA',
}
# what the generated source may consist of: fixed templates, operators from a closed set, literal references by index, and lists of tag names
SAFE_SOURCE = (r"(\(|\)| and | or |_compare\('(==|!=|<=|>=|<|>)', |, |_literals\[[0-9]+\]|id\(|\) !=  id\(NOT_FOUND\)|\) == id\(NOT_FOUND\)"
               r"|_get_path\(_grid, _entity, \['[a-z][a-zA-Z0-9_]*'(, '[a-z][a-zA-Z0-9_]*')*\]\))*")
SCALAR_DOCS = {
    'num': ('3.0', '-12_345.678e+5kW/h'), 'str': ('3.0', '"a\\"b\\u00e9\\n$x"'.replace('$', '\\$')), 'uri': ('2.0', '`http://a/b\\`c\\u0041`'),
    'ref': ('3.0', '@abc-1.2 "Display"'), 'date': ('2.0', '2020-02-29'), 'time': ('3.0', '12:34:56.789'), 'time6': ('2.0', '23:59:59.123456'),
    'dt': ('3.0', '2021-03-04T05:06:07.125+05:30 Kolkata'), 'dtz': ('2.0', '2021-03-04T05:06:07Z UTC'), 'coord': ('3.0', 'C(-37.5,144.25)'),
    'xstr': ('3.0', 'Span("2020-01")'), 'hex': ('3.0', 'hex("dead01")'), 'b64': ('3.0', 'b64("3q2+7w==")'),
    'list': ('3.0', '[1,[N,"x"],{a:1},]'), 'dict': ('3.0', '{a:1 b:"c" d}'), 'bin': ('2.0', 'Bin(text/plain)'),
    'kw': ('3.0', 'NA'), 'inf': ('2.0', '-INF'),
    # the ends of the calendar: conversions to the named zone leave datetime's range
    'dtfold': ('2.0', '2016-10-30T02:30:00+02:00 Berlin'), 'dtfold2': ('3.0', '2020-11-01T01:30:00-04:00 New_York'),
    'dtmin': ('3.0', '0001-01-01T00:00:00+10:00 Sydney'), 'dtmax': ('2.0', '9999-12-31T23:59:59Z Tokyo'),
}


# fully symbolic short texts (op 'all': every character is an unconstrained symbolic code point; the text below only fixes the length)
SHORT_DOCS = {'short1': ('3.0', 'a'), 'short2': ('3.0', 'ab'), 'short3': ('3.0', 'abc'), 'short4': ('3.0', 'abcd'),
              'short1v2': ('2.0', 'a'), 'short2v2': ('2.0', 'ab'), 'short3v2': ('2.0', 'abc'), 'short4v2': ('2.0', 'abcd')}


def _digit_ranges():
    out, start = [], None
    for cp in range(0x80, 0x110000):
        if chr(cp).isdecimal():
            if start is None:
                start = cp
        elif start is not None:
            out.append((start, cp - 1))
            start = None
    return out


UNICODE_DIGIT_RANGES = _digit_ranges()


JSON_DOCS = {
    'jnum': ('3.0', 'n:12.5'), 'jqty': ('2.0', 'n:-3.2e+5 kW'), 'jint': ('3.0', 'n:42'), 'jinf': ('3.0', 'n:-INF'), 'jnan': ('2.0', 'n:NaN'),
    'jstr': ('3.0', 's:he:llo'), 'jplain': ('2.0', 'plain text'), 'jmark': ('3.0', 'm:'), 'jna': ('3.0', 'z:'), 'jrem3': ('3.0', '-:'), 'jrem2': ('2.0', 'x:'),
    'jref': ('3.0', 'r:abc-1.2 Display name'), 'jref0': ('2.0', 'r:a_b~c'), 'juri': ('3.0', 'u:http://a/b?c#d'), 'jbin': ('2.0', 'b:text/plain'),
    'jdate': ('3.0', 'd:2020-02-29'), 'jtime2': ('3.0', 'h:12:34'), 'jtime3': ('2.0', 'h:12:34:56'), 'jtimef': ('3.0', 'h:23:59:59.123456'),
    'jdt': ('3.0', 't:2021-03-04T05:06:07+05:30 Kolkata'), 'jdtz': ('2.0', 't:2021-03-04T05:06:07Z'), 'jdtf': ('3.0', 't:2021-03-04T05:06:07.125Z UTC'),
    'jcoord': ('3.0', 'c:37.5,-122.25'), 'jxstr': ('3.0', 'x:Span:2020-01'), 'jhex': ('3.0', 'x:hex:dead01'),
}


# partition of the whole code space for the first character of a fully symbolic text (one job per class)
FIRST_PARTS = [[[0x30, 0x39]], [[0x41, 0x5a]], [[0x61, 0x7a]], [[0x22, 0x22]], [[0x60, 0x60]], [[0x40, 0x40]], [[0x2d, 0x2d]],
               [[0x5b, 0x5b], [0x7b, 0x7b], [0x3c, 0x3c]], [[0, 0x21], [0x23, 0x2c]],
               [[0x2e, 0x2f], [0x3a, 0x3b], [0x3d, 0x3f], [0x5c, 0x5f], [0x7c, 0x7f]], [[0x80, 0x10ffff]]]


def _check_parts():
    flat = sorted(r for part in FIRST_PARTS for r in part)
    nxt = 0
    for lo, hi in flat:
        assert lo == nxt, 'FIRST_PARTS is not a partition at %x' % lo
        nxt = hi + 1
    assert nxt == 0x110000


_check_parts()

JSON_SHORT = {}
for _n in range(1, 11):
    JSON_SHORT['jshort%d' % _n] = ('3.0', 'abcdefghij'[:_n])
    JSON_SHORT['jshort%dv2' % _n] = ('2.0', 'abcdefghij'[:_n])


def _init_safe():
    global _SAFE_RE
    _SAFE_RE = _re_mod.compile(SAFE_SOURCE)



# ---- C12: every token of an accepted filter is a well-formed Haystack token ---------------------------------
_TAG_FIRST, _TAG_REST = [[97, 122]], [[48, 57], [65, 90], [97, 122], [95, 95]]
_REF_CHARS = [[48, 57], [65, 90], [97, 122], [95, 95], [58, 58], [45, 46], [126, 126]]
_XTYPE_FIRST = _TAG_REST          # hszinc's own hex(...) and b64(...) are lower case: any of [A-Za-z0-9_]


def _chars(s):
    return list(s.c) if isinstance(s, SymStr) else [ord(x) for x in s]


def _in(ch, ranges):
    if isinstance(ch, int):
        return any(lo <= ch <= hi for lo, hi in ranges)
    return z3.Or(*[z3.And(ch >= lo, ch <= hi) for lo, hi in ranges])


def _wf(s, first, rest, allow_empty=False):
    cs = _chars(s)
    if not cs:
        return allow_empty
    return tw.b_and(_in(cs[0], first), *[_in(c, rest) for c in cs[1:]])


def filter_tokens_wellformed(hz, node):
    """conjunction (bool or z3 term): tag names [a-z][A-Za-z0-9_]*, reference names [A-Za-z0-9_:.~-]*, XStr type names starting
    with an upper-case letter, dict tag names - over every node and literal of a filter AST"""
    D = sys.modules['hszinc.datatypes']
    FA = sys.modules['hszinc.filter_ast']
    out = [True]

    def lit(v):
        if isinstance(v, D.Ref):
            out.append(_wf(v.name, _REF_CHARS, _REF_CHARS, True))
        elif isinstance(v, D.XStr):
            out.append(_wf(v.encoding, _XTYPE_FIRST, _TAG_REST))
        elif isinstance(v, list):
            for x in v:
                lit(x)
        elif isinstance(v, dict) or type(v).__name__ in ('SortableDict', 'MetadataObject'):
            for k in list(v.keys()):
                out.append(_wf(k, _TAG_FIRST, _TAG_REST))
                lit(v[k])

    def walk(n):
        if isinstance(n, FA.FilterAST):
            walk(n._head)
        elif isinstance(n, FA.FilterPath):
            for name in n.path:
                out.append(_wf(name, _TAG_FIRST, _TAG_REST))
        elif isinstance(n, FA.FilterBinary):
            walk(n.left)
            walk(n.right)
        elif isinstance(n, FA.FilterUnary):
            walk(n.right)
        else:
            lit(n)
    walk(node)
    return tw.b_and(*out)


def within(exc, chars_of):
    """line/column of a ZincParseException lie within the text it refers to ((0,0) = documented 'unknown')"""
    line, col = exc.line, exc.col
    if line == 0 and col == 0:
        return True
    lines = exc.grid_str.split('\n')
    if not (1 <= line <= len(lines)):
        return False
    return 1 <= col <= len(lines[line - 1]) + 1


def run_doc(hz, ref, name, text, job, ex_factory):
    prop, scalar, version = job['prop'], job.get('scalar', False), job.get('version')
    ZPE = sys.modules['hszinc.zincparser'].ZincParseException
    out = []
    stats = dict(explorations=0, paths=0, checks=0, solver_s=0.0, nontrivial=0, errors=[], reached=0, budget=0)
    positions = range(0, len(text) + 1)
    step = job.get('stride', 1)
    import re as _re
    always = set()
    for m in _re.finditer(r'ver:"([^"]*)"', text):          # version texts are covered at every position in every tier
        always.update(range(m.start(1), m.end(1)))
    nparts = job.get('nparts', 1)
    for op in job.get('ops', ['replace', 'insert']):
        for i in positions:
            if op == 'all':
                if i != 0:
                    continue
            elif op == 'replace2':
                if i + 1 >= len(text) or i % step != job.get('phase', 0) % step:
                    continue
            elif op == 'replace' and i >= len(text):
                continue
            elif op == 'replace' and i in always:
                if i % nparts != job.get('part', 0):
                    continue
            elif (i + (1 if op == 'insert' else 0)) % step != job.get('phase', 0) % step:
                continue
            ex = ex_factory()
            found = {}

            def body():
                c = z3.Int('c')
                tw.char_domain(ex, c, None)
                syms = [c]
                if job.get('alphabet'):
                    ex.assume(z3.Or(*[z3.And(c >= lo, c <= hi) for lo, hi in job['alphabet']]))
                if job.get('ver_alphabet') and op == 'replace' and i in always:
                    ex.assume(z3.Or(*[z3.And(c >= lo, c <= hi) for lo, hi in job['ver_alphabet']]))
                chars = [ord(x) for x in text]
                if op == 'replace':
                    ex.assume(c != chars[i])
                    chars[i] = c
                elif op == 'insert':
                    chars.insert(i, c)
                else:
                    k = 2 if op == 'replace2' else len(text)
                    syms = [c] + [z3.Int('c%d' % n) for n in range(1, k)]
                    for v in syms[1:]:
                        tw.char_domain(ex, v, None)
                        if job.get('alphabet2'):
                            ex.assume(z3.Or(*[z3.And(v >= lo, v <= hi) for lo, hi in job['alphabet2']]))
                    if op == 'replace2':
                        ex.assume(z3.And(c != chars[i], syms[1] != chars[i + 1]))
                    for n, v in enumerate(syms):
                        chars[i + n] = v
                if job.get('no_unicode_digits'):
                    for v in syms:
                        for lo, hi in UNICODE_DIGIT_RANGES:
                            ex.assume(z3.Or(v < lo, v > hi))
                t = SymStr(chars)

                def model():
                    if ex.check() != z3.sat:
                        return None
                    m = ex.model()
                    return ''.join(chr(m.eval(v, model_completion=True).as_long()) for v in syms)
                if prop == 'C12':
                    GF = sys.modules['hszinc.grid_filter']
                    try:
                        with contextlib.redirect_stdout(io.StringIO()):
                            ast_ = GF.parse_filter(t)
                    except Exception as e:
                        stats['reached'] += 1
                        if isinstance(e, (pp.ParseBaseException, ValueError)):
                            return ('ok',)
                        return ('cex', 'an invalid filter raised %s instead of a parse error' % type(e).__name__, model())
                    stats['reached'] += 1
                    # "a token that is not a valid filter is rejected": every name / reference / type name of an accepted filter is well formed
                    wf = filter_tokens_wellformed(hz, ast_)
                    if wf is False or (wf is not True and ex.check(z3.Not(to_z3(wf))) == z3.sat):
                        if wf is not False:
                            ex.add(z3.Not(to_z3(wf)))
                        return ('cex', 'a filter holding an ill-formed token (tag name, reference name or type name) is accepted', model())
                    # run the real compile step with the exec-ing wrapper replaced by a recorder: what would be exec'd?
                    rec = {}

                    class _Recorder(object):
                        def __init__(self, fun_name, function_template, literals=None):
                            rec['name'], rec['src'], rec['lits'] = fun_name, function_template, literals

                        def get(self):
                            return None
                    real_wrapper = GF._FnWrapper
                    GF._FnWrapper = _Recorder
                    try:
                        with contextlib.redirect_stdout(io.StringIO()):
                            (getattr(GF._filter_function, '__wrapped__', GF._filter_function))(t)
                    except Exception as e:
                        return ('cex', 'compiling an accepted filter raised %s' % type(e).__name__, model())
                    finally:
                        GF._FnWrapper = real_wrapper
                    full_src = rec.get('src')
                    if full_src is None:
                        return ('cex', 'the compile step did not go through _FnWrapper', model())
                    # the generated text is needed concretely for the syntactic safety check: exhaustive forking over small
                    # domains (tag-name characters), sampling of representatives (incl. line terminators, quotes, #) otherwise
                    plain_src = instr.conc_value(full_src) if isinstance(full_src, SymStr) else full_src
                    from . import c12audit
                    prob = c12audit.source_problem(plain_src, GF)
                    if prob is not None:
                        return ('cex', 'code derived from the filter text in the generated source: %s' % prob, model())
                    return ('ok',)
                # reference first (C03: paths where the reference rejects are outside the claim)
                try:
                    with contextlib.redirect_stdout(io.StringIO()):
                        if job.get('json'):
                            R = ('ok', ref.decode_string(t, version == '3.0'))
                        else:
                            R = ('ok', ref.parse_scalar(t, version) if scalar else ref.parse_document(t))
                except ref.RefReject as e:
                    R = ('reject', e.why)
                if prop in ('C03', 'C05') and R[0] != 'ok':
                    return ('ok',)
                try:
                    with contextlib.redirect_stdout(io.StringIO()):
                        if job.get('json'):
                            H = ('ok', sys.modules['hszinc.jsonparser'].parse_embedded_scalar(t, version=hz.Version(version)))
                        elif scalar:
                            H = ('ok', hz.parse_scalar(t, mode=hz.MODE_ZINC, version=version))
                        else:
                            H = ('ok', hz.parse(t, mode=hz.MODE_ZINC, single=False))
                except Exception as e:
                    H = ('exc', e)
                stats['reached'] += 1
                if prop in ('C09', 'C03') and not scalar and not job.get('json') and name in SINGLE_TOO:
                    # the default entry point parse(text) (single=True) must take the same decision as single=False: raise when any
                    # grid of the document is malformed, else return the first grid
                    try:
                        with contextlib.redirect_stdout(io.StringIO()):
                            S = ('ok', hz.parse(t, mode=hz.MODE_ZINC))
                    except Exception as e:
                        S = ('exc', e)
                    if S[0] != H[0]:
                        return ('cex', 'parse(text) and parse(text, single=False) disagree: %s vs %s' % (
                            'raises ' + type(S[1]).__name__ if S[0] == 'exc' else 'returns a grid', 'raises ' + type(H[1]).__name__ if H[0] == 'exc' else 'returns grids'), model())
                if H[0] == 'exc':
                    e = H[1]
                    if prop == 'C07':
                        return ('ok',)
                    if prop in ('C03', 'C05'):
                        return ('cex', 'a well-formed text (accepted by the reference reader) is rejected: %s' % type(e).__name__, model())
                    if scalar:
                        if not isinstance(e, ValueError):
                            return ('cex', 'scalar parsing raised %s (not a ValueError)' % type(e).__name__, model())
                        return ('ok',)
                    if not isinstance(e, ZPE) or not isinstance(e, ValueError):
                        return ('cex', 'grid parsing raised %s instead of ZincParseException' % type(e).__name__, model())
                    if not within(e, None):
                        return ('cex', 'ZincParseException line=%r col=%r outside the text' % (e.line, e.col), model())
                    return ('ok',)
                # accepted
                if prop == 'C07':
                    f = True
                    for g in H[1]:
                        try:
                            with contextlib.redirect_stdout(io.StringIO()):
                                msg, fg = c07_oracle(hz, g, True)
                        except Exception as e:
                            if isinstance(e, ValueError) and str(e).startswith('Unable to get timezone'):
                                return ('ok',)          # documented: no mapped zone has this offset (C17)
                            return ('cex', 're-dumping / re-parsing a parsed grid raised %s' % type(e).__name__, model())
                        if msg is not None:
                            return ('cex', msg, model())
                        f = tw.b_and(f, fg)
                    if f is not True and ex.check(z3.Not(to_z3(f))) == z3.sat:
                        ex.add(z3.Not(to_z3(f)))
                        return ('cex', 'a re-dumped / transcoded grid differs (or dump not idempotent)', model())
                    return ('ok',)
                if R[0] == 'reject':
                    if prop == 'C09' and any(R[1].startswith(s) for s in STRUCTURAL):
                        return ('cex', 'structurally broken text accepted (reference: %s)' % R[1], model())
                    return ('ok',)
                if prop in ('C03', 'C05'):
                    if scalar:
                        f = neutral.same(neutral.to_neutral(hz, H[1]), R[1], dict(zone_names=False, dt_instant=True))
                    else:
                        gs = H[1]
                        if len(gs) != len(R[1]):
                            return ('cex', 'grid count %d, reference %d' % (len(gs), len(R[1])), model())
                        f = True
                        for g, r in zip(gs, R[1]):
                            f = tw.b_and(f, neutral.same(neutral.to_neutral(hz, g), r, dict(zone_names=False, dt_instant=True)))
                    if f is False:
                        return ('cex', 'decoded differently from the reference denotation', model())
                    if f is not True and ex.check(z3.Not(to_z3(f))) == z3.sat:
                        ex.add(z3.Not(to_z3(f)))
                        return ('cex', 'decoded differently from the reference denotation', model())
                return ('ok',)

            def on_result(r, ex):
                if r and r[0] == 'cex':
                    found['cex'] = r
                    return True
                return False
            status = ex.explore(body, on_result=on_result)
            stats['explorations'] += 1
            stats['paths'] += ex.paths
            stats['checks'] += ex.checks
            stats['solver_s'] += ex.solver_time
            stats['nontrivial'] += ex.nontrivial
            stats['errors'] += ['%s@%d/%s: %s' % (name, i, op, e) for e in ex.errors[:2]]
            if status == 'budget':
                stats['budget'] += 1
            if 'cex' in found:
                out.append(dict(doc=name, pos=i, op=op, what=found['cex'][1], char=found['cex'][2]))
    return out, stats


def run_job(job):
    import logging
    logging.disable(logging.CRITICAL)
    hz = tw.load()
    ref = tw.json_ref(True) if job.get('json') else tw.zinc_ref(True)
    docs = FILTER_DOCS if job.get('filter') else (dict(JSON_DOCS, **JSON_SHORT) if job.get('json') else (dict(SCALAR_DOCS, **SHORT_DOCS) if job.get('scalar') else dict(GRID_DOCS, **C07_DOCS)))
    _init_safe()
    t0 = time.time()
    allc, tot = [], None
    for name in job['docs']:
        if job.get('filter'):
            text = docs[name]
            j = job
        elif job.get('scalar'):
            version, text = docs[name]
            j = dict(job, version=version)
        else:
            text = docs[name]
            j = job
        cex, st = run_doc(hz, ref, name, text, j, lambda: core.Explorer(timeout=job.get('timeout', 60)))
        allc += cex
        if tot is None:
            tot = st
        else:
            for k in st:
                tot[k] += st[k]
    return dict(job=job, status='done', cex=allc[:20], ncex=len(allc), stats=tot, wall_s=round(time.time() - t0, 2),
                functions=sorted(instr.CALLED)[:250], conc_calls=sorted(instr.CONC_CALLS)[:20])


def mutated(job, c):
    if job.get('filter'):
        text = FILTER_DOCS[c['doc']]
        return text if c['op'] == 'none' else ((text[:c['pos']] + c['char'] + text[c['pos'] + 1:]) if c['op'] == 'replace' else (text[:c['pos']] + c['char'] + text[c['pos']:]))
    docs = dict(JSON_DOCS, **JSON_SHORT) if job.get('json') else (dict(SCALAR_DOCS, **SHORT_DOCS) if job.get('scalar') else dict(GRID_DOCS, **C07_DOCS))
    text = docs[c['doc']][1] if job.get('scalar') else docs[c['doc']]
    if c['op'] == 'none':
        return text
    if c['op'] == 'all':
        return c['char']
    if c['op'] == 'replace2':
        return text[:c['pos']] + c['char'] + text[c['pos'] + 2:]
    if c['op'] == 'replace':
        return text[:c['pos']] + c['char'] + text[c['pos'] + 1:]
    return text[:c['pos']] + c['char'] + text[c['pos']:]


def replay(hz, job, c):
    """plain-CPython replay of one counterexample (payload c = dict(doc,pos,op,char)); None = property holds"""
    import importlib
    ref = importlib.import_module('vf.spec.json_ref' if job.get('json') else 'vf.spec.zinc_ref')
    prop, scalar = job['prop'], job.get('scalar', False)
    version = ((dict(JSON_DOCS, **JSON_SHORT) if job.get('json') else dict(SCALAR_DOCS, **SHORT_DOCS))[c['doc']][0]) if scalar else None
    t = mutated(job, c)
    ZPE = sys.modules['hszinc.zincparser'].ZincParseException
    if prop == 'C12':
        from . import c12audit
        probs = c12audit.audit_run(hz, [t])
        return ('filter %r: %s' % probs[0]) if probs else None
    try:
        if job.get('json'):
            R = ('ok', ref.decode_string(t, version == '3.0'))
        else:
            R = ('ok', ref.parse_scalar(t, version) if scalar else ref.parse_document(t))
    except ref.RefReject as e:
        R = ('reject', e.why)
    if prop in ('C03', 'C05') and R[0] != 'ok':
        return None
    try:
        with contextlib.redirect_stdout(io.StringIO()):
            if job.get('json'):
                H = ('ok', hz.parse_scalar(json.dumps(t), mode=hz.MODE_JSON, version=version))      # through the public API and real JSON text
            else:
                H = ('ok', hz.parse_scalar(t, mode=hz.MODE_ZINC, version=version) if scalar else hz.parse(t, mode=hz.MODE_ZINC, single=False))
    except Exception as e:
        H = ('exc', e)
    if prop == 'C12':
        from . import c12audit
        probs = c12audit.audit_run(hz, [t])
        return ('filter %r: %s' % probs[0]) if probs else None
    if prop in ('C09', 'C03') and not scalar and not job.get('json') and c['doc'] in SINGLE_TOO:
        try:
            with contextlib.redirect_stdout(io.StringIO()):
                S = ('ok', hz.parse(t, mode=hz.MODE_ZINC))
        except Exception as e:
            S = ('exc', e)
        if S[0] != H[0]:
            return 'parse(%r) %s but parse(..., single=False) %s' % (t, 'raises ' + type(S[1]).__name__ if S[0] == 'exc' else 'returns a grid',
                                                                      'raises ' + type(H[1]).__name__ if H[0] == 'exc' else 'returns grids')
    if prop == 'C07':
        if H[0] == 'exc':
            return None
        for g in H[1]:
            try:
                with contextlib.redirect_stdout(io.StringIO()):
                    msg, f = c07_oracle(hz, g, False)
            except Exception as e:
                if isinstance(e, ValueError) and str(e).startswith('Unable to get timezone'):
                    return None
                return 'text %r parses, but re-dumping / re-parsing the grid raised %s: %s' % (t, type(e).__name__, str(e)[:160])
            if msg is None and f is not True:
                msg = 'a re-dumped / transcoded grid differs'
            if msg is not None:
                return 'text %r: %s' % (t, msg)
        return None
    if H[0] == 'exc':
        e = H[1]
        if prop in ('C03', 'C05'):
            return 'well-formed text %r rejected: %s: %s' % (t, type(e).__name__, str(e)[:120])
        if scalar:
            return None if isinstance(e, ValueError) else 'parse_scalar(%r) raised %s: %s' % (t, type(e).__name__, str(e)[:120])
        if not isinstance(e, ZPE) or not isinstance(e, ValueError):
            return 'parse(%r) raised %s: %s' % (t, type(e).__name__, str(e)[:120])
        if not within(e, None):
            return 'parse(%r): ZincParseException line=%r col=%r outside the text' % (t, e.line, e.col)
        return None
    if R[0] == 'reject':
        if prop == 'C09' and any(R[1].startswith(s) for s in STRUCTURAL):
            return 'structurally broken text %r accepted as %r (reference: %s)' % (t, H[1], R[1])
        return None
    if prop in ('C03', 'C05'):
        if scalar:
            f = neutral.same(neutral.to_neutral(hz, H[1]), R[1], dict(zone_names=False, dt_instant=True))
        else:
            if len(H[1]) != len(R[1]):
                return 'grid count differs for %r' % t
            f = all(neutral.same(neutral.to_neutral(hz, g), r, dict(zone_names=False, dt_instant=True)) is True for g, r in zip(H[1], R[1]))
        if f is not True:
            return 'text %r decoded as %r, reference denotation %r' % (t, H[1], R[1])
    return None


def c07_oracle(hz, g, symbolic, origin='zinc'):
    """C07 on one parser-made grid: re-dump in both formats, re-parse, transcode, idempotence, purity.
    -> (message or None, formula)"""
    jd = sys.modules['hszinc.jsondumper']
    before = neutral.to_neutral(hz, g)
    f = True
    z1 = hz.dump(g, mode=hz.MODE_ZINC)
    z1b = hz.dump(g, mode=hz.MODE_ZINC)
    if symbolic:
        j1 = jd._dump_grid_to_json(g)
        j1b = jd._dump_grid_to_json(g)
    else:
        j1 = hz.dump(g, mode=hz.MODE_JSON)
        j1b = hz.dump(g, mode=hz.MODE_JSON)
    # two dumps of one grid are identical, and dumping does not modify the grid
    e = tw.SymStr(z1).eq_term(z1b) if not (isinstance(z1, str) and isinstance(z1b, str)) else (z1 == z1b)
    if e is False:
        return 'two ZINC dumps of one grid differ', True
    f = tw.b_and(f, e)
    if not symbolic and j1 != j1b:
        return 'two JSON dumps of one grid differ', True
    after = neutral.to_neutral(hz, g)
    if repr_tree(before) != repr_tree(after):
        return 'dumping modified the grid', True
    gz = hz.parse(z1, mode=hz.MODE_ZINC)
    gj = hz.parse(j1, mode=hz.MODE_JSON)
    e = tw.same_grid(hz, g, gz, dict(six_decimals=False))
    if e is False:
        return 'ZINC re-parse of the re-dumped grid differs: %s' % describe(hz, g, gz), True
    f = tw.b_and(f, e)
    e = tw.same_grid(hz, g, gj, dict(six_decimals=True))
    if e is False:
        return 'JSON re-parse of the re-dumped grid differs: %s' % describe(hz, g, gj), True
    f = tw.b_and(f, e)
    # normalising a document by parse-then-dump (in its own format) is idempotent, character for character
    if origin == 'zinc':
        z2 = hz.dump(gz, mode=hz.MODE_ZINC)
        e = tw.SymStr(z1).eq_term(z2) if not (isinstance(z1, str) and isinstance(z2, str)) else (z1 == z2)
        if e is False:
            return 'parse-then-dump is not idempotent: %r then %r' % (z1 if isinstance(z1, str) else '<symbolic>', z2 if isinstance(z2, str) else '<symbolic>'), True
        f = tw.b_and(f, e)
    elif not symbolic:
        j2 = hz.dump(gj, mode=hz.MODE_JSON)
        if j1 != j2:
            return 'parse-then-dump is not idempotent: %r then %r' % (j1, j2), True
    # transcoding: ZINC -> JSON -> ZINC and JSON -> ZINC -> JSON
    gzj = hz.parse(jd._dump_grid_to_json(gz) if symbolic else hz.dump(gz, mode=hz.MODE_JSON), mode=hz.MODE_JSON)
    gjz = hz.parse(hz.dump(gj, mode=hz.MODE_ZINC), mode=hz.MODE_ZINC)
    for name, other in (('ZINC->JSON', gzj), ('JSON->ZINC', gjz)):
        e = tw.same_grid(hz, g, other, dict(six_decimals=True))
        if e is False:
            return 'transcoding %s loses information: %s' % (name, describe(hz, g, other)), True
        f = tw.b_and(f, e)
    return None, f


def repr_tree(t):
    return repr(t) if not _has_sym(t) else '<sym>'


def _has_sym(t):
    if isinstance(t, (list, tuple)):
        return any(_has_sym(x) for x in t)
    if z3 is not None and isinstance(t, SymStr):
        return sstr.to_plain(t) is None
    return type(t).__name__ in ('SymStr', 'SymInt', 'SymBool')


def describe(hz, a, b):
    if _has_sym([list(r.values()) for r in a]) or _has_sym([list(r.values()) for r in b]) or _has_sym([list(r.keys()) for r in b]):
        return '<symbolic rows>'
    return 'sent %r got %r' % (list(a), list(b))


def json_forms(hz):
    """concrete structural variants of a JSON grid x input forms; also: the caller's pre-decoded object is not modified"""
    import copy
    import importlib
    ref = importlib.import_module('vf.spec.json_ref')
    nested = {'meta': {'ver': '3.0'}, 'cols': [{'name': 'k'}], 'rows': [{'k': 'n:1'}]}
    base = {'meta': {'ver': '3.0', 'dis': 's:x', 'mk': 'm:'}, 'cols': [{'name': 'a'}, {'name': 'b', 'unit': 's:m', 'flag': 'm:'}],
            'rows': [{'a': 'n:1.5 kW', 'b': True}, {'b': 'plain'}, {'a': 5, 'b': 2.5}, {'a': None}]}
    variants = {'base': base}
    v = copy.deepcopy(base); del v['rows']; v['rows_missing'] = None; del v['rows_missing']; variants['rows_missing'] = v
    v = copy.deepcopy(base); v['rows'] = None; variants['rows_null'] = v
    v = copy.deepcopy(base); v['rows'] = []; variants['rows_empty'] = v
    v = copy.deepcopy(base); v['rows'] = [{'a': ['n:1', 's:x', ['m:']], 'b': {'x': 'n:2', 'g': copy.deepcopy(nested)}}, {'a': copy.deepcopy(nested)}]; variants['nested3'] = v
    v = copy.deepcopy(base); v['meta']['ver'] = '2.0'; v['rows'] = [{'a': 'x:', 'b': '-:'}]; variants['remove2'] = v
    v = copy.deepcopy(base); v['meta']['g'] = copy.deepcopy(nested); v['cols'][0]['lst'] = ['n:1']; variants['meta_nested'] = v
    # raw JSON numbers and booleans that are equal and hash alike in Python (1/true, 0/false, 1.0) side by side, both orders
    v = copy.deepcopy(base); v['rows'] = [{'a': 1, 'b': True}, {'a': 0, 'b': False}, {'a': 1.0, 'b': True}, {'a': True, 'b': 1}, {'a': False, 'b': 0.0}]; variants['raw_mix'] = v
    # text outside ASCII, written raw (not as \\u escapes), for the bytes + charset forms
    v = copy.deepcopy(base); v['meta']['dis'] = u's:Caf\u00e9 \u00b0C \u20ac'; v['rows'] = [{'a': u'n:21.5 \u00b0C', 'b': u'r:x \u00dcber'}, {'b': u'\u00e9'}]; variants['nonascii'] = v
    fails = []
    n = 0
    for name, tree in variants.items():
        try:
            want = ref.decode_document(tree)
        except ref.RefReject as e:
            fails.append((name, 'reference rejects its own form: %s' % e))
            continue
        txt = json.dumps(tree, ensure_ascii=(name != 'nonascii'))
        forms = [('dict', copy.deepcopy(tree), True, None), ('str', txt, True, None), ('bytes', txt.encode('utf-8'), True, None),
                 ('list', [copy.deepcopy(tree), copy.deepcopy(tree)], False, None), ('array_str', '[%s,%s]' % (txt, txt), False, None)]
        if name in ('nonascii', 'base'):
            import codecs
            forms += [('bytes_' + cs, txt.encode(cs), True, cs) for cs in ('utf-8', 'cp1252', 'utf-16', 'utf-16-le', 'utf-16-be', 'utf-32', 'utf-32-be', 'utf-7', 'iso-8859-15', 'cp1140')]
            forms += [('bytes_utf-16_BE_BOM', codecs.BOM_UTF16_BE + txt.encode('utf-16-be'), True, 'utf-16'), ('bytes_utf-32_BE_BOM', codecs.BOM_UTF32_BE + txt.encode('utf-32-be'), True, 'utf-32'),
                      ('bytes_array_cp1252', ('[%s,%s]' % (txt, txt)).encode('cp1252'), False, 'cp1252')]
        for fname, form, single, charset in forms:
            n += 1
            before = copy.deepcopy(form)
            try:
                with contextlib.redirect_stdout(io.StringIO()):
                    got = hz.parse(form, mode=hz.MODE_JSON, single=single) if charset is None else hz.parse(form, mode=hz.MODE_JSON, single=single, charset=charset)
            except Exception as e:
                fails.append(('%s/%s' % (name, fname), 'raised %s: %s' % (type(e).__name__, str(e)[:100])))
                continue
            if form != before:
                fails.append(('%s/%s' % (name, fname), 'the caller\'s input object was modified'))
            grids = [got] if single else got
            if not single and len(grids) != 2:
                fails.append(('%s/%s' % (name, fname), 'grid count %d' % len(grids)))
                continue
            for g in grids:
                f = neutral.same(neutral.to_neutral(hz, g), want[0], dict(zone_names=False, dt_instant=True, ordered_dict=False))
                if f is not True:
                    fails.append(('%s/%s' % (name, fname), 'decoded as %r, reference %r' % (neutral.to_neutral(hz, g), want[0])))
                    break
            # parsing the same object twice gives the same result
            if fname in ('dict', 'list'):
                with contextlib.redirect_stdout(io.StringIO()):
                    again = hz.parse(form, mode=hz.MODE_JSON, single=single)
                a2 = [again] if single else again
                if [neutral.to_neutral(hz, x) for x in a2] != [neutral.to_neutral(hz, x) for x in grids]:
                    fails.append(('%s/%s' % (name, fname), 'second parse of the same object differs'))
    return n, fails


ZINC_FORM_DOCS = {
    'uni3': u'ver:"3.0" dis:"Caf\u00e9 \u00b0C \u20ac"\nname,val unit:"\u00b0C"\n"\u00dcber",21.5\u00b0C\n`http://x/\u00e9`,[\"\u00e4\", 5\u20ac]\n',
    'uni2two': u'ver:"2.0"\na\n"\u00e9"\n\nver:"2.0"\nb\n@r "\u00fc"\n',
}


def zinc_forms(hz):
    """C03: str or bytes input in any charset; single=True gives the first grid, single=False all; empty input gives None / [].
    Every document x charset (with and without byte-order mark where the codec defines one) x entry point must give what the str gives."""
    import codecs
    fails = []
    n = 0
    docs = dict(GRID_DOCS)
    docs.update(ZINC_FORM_DOCS)
    with contextlib.redirect_stdout(io.StringIO()):
        for name, text in docs.items():
            want = [repr(neutral.to_neutral(hz, g)) for g in hz.parse(text, mode=hz.MODE_ZINC, single=False)]
            forms = []
            for cs in ('utf-8', 'us-ascii', 'latin-1', 'cp1252', 'iso-8859-15', 'utf-16', 'utf-16-le', 'utf-16-be', 'utf-32', 'utf-32-le', 'utf-32-be', 'utf-7', 'cp1140', 'utf-8-sig'):
                try:
                    forms.append((cs, text.encode(cs), cs))
                except UnicodeEncodeError:
                    continue
            forms.append(('utf-16+BE-BOM', codecs.BOM_UTF16_BE + text.encode('utf-16-be'), 'utf-16'))
            forms.append(('utf-16+LE-BOM', codecs.BOM_UTF16_LE + text.encode('utf-16-le'), 'utf-16'))
            forms.append(('utf-32+BE-BOM', codecs.BOM_UTF32_BE + text.encode('utf-32-be'), 'utf-32'))
            forms.append(('utf-32+LE-BOM', codecs.BOM_UTF32_LE + text.encode('utf-32-le'), 'utf-32'))
            for fname, data, cs in forms:
                for single in (False, True):
                    n += 1
                    tag = '%s/%s/%s' % (name, fname, 'single' if single else 'all')
                    try:
                        got = hz.parse(data, mode=hz.MODE_ZINC, charset=cs, single=single)
                    except Exception as e:
                        fails.append((tag, 'bytes in charset %s raised %s: %s (the str parses)' % (cs, type(e).__name__, str(e)[:100])))
                        continue
                    got = [got] if single else got
                    gw = want[:1] if single else want
                    if [repr(neutral.to_neutral(hz, g)) for g in got] != gw:
                        fails.append((tag, 'bytes in charset %s decoded differently from the str' % cs))
                # default charset is utf-8; default single is True
            n += 1
            try:
                if repr(neutral.to_neutral(hz, hz.parse(text.encode('utf-8'), mode=hz.MODE_ZINC))) != want[0] or repr(neutral.to_neutral(hz, hz.parse(text))) != want[0]:
                    fails.append((name + '/defaults', 'parse(text) / parse(utf-8 bytes) with default arguments is not the first grid'))
            except Exception as e:
                fails.append((name + '/defaults', 'raised %s' % type(e).__name__))
        # scalars as bytes
        for name, (version, text) in SCALAR_DOCS.items():
            n += 1
            try:
                a = neutral.to_neutral(hz, hz.parse_scalar(text, mode=hz.MODE_ZINC, version=version))
                for cs in ('utf-8', 'utf-16', 'utf-32-be', 'cp1252'):
                    b = neutral.to_neutral(hz, hz.parse_scalar(text.encode(cs), mode=hz.MODE_ZINC, version=version, charset=cs))
                    if repr(a) != repr(b):
                        fails.append(('scalar:%s/%s' % (name, cs), 'bytes scalar decoded differently from the str'))
            except Exception as e:
                fails.append(('scalar:%s' % name, 'raised %s: %s' % (type(e).__name__, str(e)[:80])))
        # empty input
        for data in ('', b''):
            n += 1
            try:
                if hz.parse(data, mode=hz.MODE_ZINC) is not None or hz.parse(data, mode=hz.MODE_ZINC, single=False) != []:
                    fails.append(('empty/%s' % type(data).__name__, 'empty input does not give None / []'))
            except Exception as e:
                fails.append(('empty/%s' % type(data).__name__, 'empty input raised %s' % type(e).__name__))
    return n, fails


def replay_zforms(hz, job, c):
    n, fails = zinc_forms(hz)
    for name, msg in fails:
        if name == c:
            return '%s: %s' % (name, msg)
    return None


def corpus_run(hz, job):
    """C07 on the unmodified corpus documents (ZINC corpus + JSON forms), plain CPython"""
    import copy
    fails = []
    n = 0
    for name in list(GRID_DOCS) + list(C07_DOCS):
        n += 1
        msg = replay(hz, dict(job, prop='C07'), dict(doc=name, op='none', pos=0, char=''))
        if msg is not None:
            fails.append((name, msg))
    # JSON-origin grids
    nested = {'meta': {'ver': '3.0'}, 'cols': [{'name': 'k'}], 'rows': [{'k': 'n:1'}]}
    trees = {
        'jbase': {'meta': {'ver': '3.0', 'dis': 's:x', 'mk': 'm:'}, 'cols': [{'name': 'a'}, {'name': 'b', 'unit': 's:m'}],
                  'rows': [{'a': 'n:1.5 kW', 'b': True}, {'b': 'plain'}, {'a': 5, 'b': 'r:x Dis'}, {'a': 't:2020-07-15T12:00:00-07:00'}, {'a': 't:2020-01-15T12:00:00-07:00', 'b': 'h:12:30'}]},
        'jnest': {'meta': {'ver': '3.0'}, 'cols': [{'name': 'a'}], 'rows': [{'a': ['n:1', {'g': nested}]}, {'a': 'x:hex:dead'}, {'a': 'c:1.5,2.25'}, {'a': 'z:'}]},
        # the first and second occurrence of a repeated local hour (clocks going back), written with their own offsets; large magnitudes
        'jfold': {'meta': {'ver': '3.0', 'since': 't:2020-11-01T01:30:00-04:00 New_York'}, 'cols': [{'name': 'a'}, {'name': 'n'}],
                  'rows': [{'a': 't:2016-10-30T02:30:00+02:00 Berlin', 'n': 'n:12345678901234567890'}, {'a': 't:2016-10-30T02:30:00+01:00 Berlin', 'n': 'n:1.2345678901234567e+25'},
                           {'a': 't:2020-11-01T01:30:00-04:00 New_York', 'n': 18446744073709551616}, {'a': 't:2020-11-01T01:30:00-05:00 New_York', 'n': 'n:123456789012345.678 ns'},
                           {'a': 't:2017-04-02T01:45:00+11:00 Lord_Howe', 'n': 'n:-9.87654321987e17'}]},
        'jv2': {'meta': {'ver': '2.0'}, 'cols': [{'name': 'a'}], 'rows': [{'a': 'x:'}, {'a': 'b:text/plain'}, {'a': 'u:http://x'}, {'a': 'd:2020-02-29'}, {'a': 'n:INF'}]},
    }
    for name, tree in trees.items():
        n += 1
        try:
            with contextlib.redirect_stdout(io.StringIO()):
                g = hz.parse(copy.deepcopy(tree), mode=hz.MODE_JSON)
                msg, f = c07_oracle(hz, g, False, 'json')
            if msg is None and f is not True:
                msg = 'a re-dumped / transcoded grid differs'
        except Exception as e:
            msg = 'raised %s: %s' % (type(e).__name__, str(e)[:160])
        if msg is not None:
            fails.append((name, msg))
    return n, fails


def replay_corpus(hz, job, c):
    n, fails = corpus_run(hz, job)
    for name, msg in fails:
        if name == c:
            return '%s: %s' % (name, msg)
    return None


def replay_canary(hz, job, c):
    from . import c12audit
    probs = [p for p in c12audit.pint_canary(hz) if p[0] == c]          # first: audit_run would leave the compiled filter in the cache
    probs = probs or c12audit.audit_run(hz, [c])
    return ('filter %r: %s' % probs[0]) if probs else None


def replay_forms(hz, job, c):
    n, fails = json_forms(hz)
    for name, msg in fails:
        if name == c:
            return '%s: %s' % (name, msg)
    return None


if __name__ == '__main__':
    job = json.loads(sys.argv[1])
    try:
        if job.get('canary'):
            import logging
            logging.disable(logging.CRITICAL)
            sys.path.insert(0, common.REPO)
            with contextlib.redirect_stdout(io.StringIO()):
                import hszinc
            from . import c12audit
            texts = c12audit.CANARY_FILTERS + list(FILTER_DOCS.values())
            probs = c12audit.audit_run(hszinc, texts)
            probs += c12audit.pint_canary(hszinc)
            res = dict(job=job, status='done', cex=[], ncex=0, forms_run=len(texts), forms_failures=[[t, m] for t, m in probs], wall_s=0.0, functions=[], conc_calls=[],
                       stats=dict(explorations=0, paths=len(texts), checks=0, solver_s=0.0, nontrivial=len(texts), errors=[], reached=len(texts), budget=0))
        elif job.get('corpus'):
            import logging
            logging.disable(logging.CRITICAL)
            sys.path.insert(0, common.REPO)
            with contextlib.redirect_stdout(io.StringIO()):
                import hszinc
            n, fails = corpus_run(hszinc, job)
            res = dict(job=job, status='done', cex=[], ncex=0, forms_run=n, forms_failures=fails, wall_s=0.0, functions=[], conc_calls=[],
                       stats=dict(explorations=0, paths=n, checks=0, solver_s=0.0, nontrivial=n, errors=[], reached=n, budget=0))
        elif job.get('zforms'):
            import logging
            logging.disable(logging.CRITICAL)
            sys.path.insert(0, common.REPO)
            with contextlib.redirect_stdout(io.StringIO()):
                import hszinc
            n, fails = zinc_forms(hszinc)
            res = dict(job=job, status='done', cex=[], ncex=0, forms_run=n, forms_failures=fails[:12], wall_s=0.0, functions=[], conc_calls=[],
                       stats=dict(explorations=0, paths=n, checks=0, solver_s=0.0, nontrivial=n, errors=[], reached=n, budget=0))
        elif job.get('forms'):
            import logging
            logging.disable(logging.CRITICAL)
            sys.path.insert(0, common.REPO)
            with contextlib.redirect_stdout(io.StringIO()):
                import hszinc
            n, fails = json_forms(hszinc)
            res = dict(job=job, status='done', cex=[], ncex=0, forms_run=n, forms_failures=fails, wall_s=0.0, functions=[], conc_calls=[],
                       stats=dict(explorations=0, paths=n, checks=0, solver_s=0.0, nontrivial=n, errors=[], reached=n, budget=0))
        else:
            res = run_job(job)
    except BaseException:
        res = dict(job=job, status='fault', error=traceback.format_exc()[-2000:])
    sys.stdout.write('\nMUT-RESULT ' + json.dumps(res, default=str) + '\n')
