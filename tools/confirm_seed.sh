#!/bin/bash
# tools/confirm_seed.sh <PROP> <i> : confirm a sub-agent's seeded change in a scratch worktree and, if confirmed,
# store it as /verif/seeded/<PROP>-<i>/ (patch.diff, demo.py, note.txt, meta.json)
P="$1"; I="$2"
SRC=${3:-/tmp/seed/out/$P}
T=${4:-$I}
WT=/tmp/seedchk/$P-$T
mkdir -p /tmp/seedchk
git -C /repo worktree add -q --detach "$WT" HEAD || exit 2
clean=$(HSZINC_REPO=$WT /venv/bin/python $SRC/demo$I.py >/dev/null 2>&1; echo $?)
if ! git -C "$WT" apply $SRC/change$I.diff 2>/tmp/seedchk/apply.err; then
  echo "$P-$T: patch does not apply to current HEAD: $(head -2 /tmp/seedchk/apply.err)"; git -C /repo worktree remove --force "$WT"; exit 3
fi
mut=$(HSZINC_REPO=$WT /venv/bin/python $SRC/demo$I.py >/tmp/seedchk/demo.out 2>&1; echo $?)
tests=$(cd $WT && /venv/bin/python -m pytest -q -p no:cacheprovider 2>&1 | tail -1)
fails=$(cd $WT && /venv/bin/python -m pytest -q -p no:cacheprovider 2>&1 | grep -c "^FAILED" )
odd=$(cd $WT && /venv/bin/python -m pytest -q -p no:cacheprovider 2>&1 | grep "^FAILED" | grep -vc test_oddball_version)
git -C /repo worktree remove --force "$WT"
echo "$P-$T: demo clean=$clean mutated=$mut ; tests: $tests ; non-baseline failures=$odd"
if [ "$clean" = 0 ] && [ "$mut" = 1 ] && [ "$odd" = 0 ] && [ "$fails" = 2 ]; then
  D=/verif/seeded/$P-$T; mkdir -p $D
  cp $SRC/change$I.diff $D/patch.diff; cp $SRC/demo$I.py $D/demo.py; cp $SRC/note$I.txt $D/note.txt
  python3 - "$P" "$T" "$tests" <<'PY'
import json, sys, subprocess
P, I, tests = sys.argv[1:4]
note = open('/verif/seeded/%s-%s/note.txt' % (P, I)).read()
head = subprocess.check_output(['git', '-C', '/repo', 'log', '-1', '--format=%h']).decode().strip()
json.dump(dict(property=P, source='independent sub-agent given only the property text and a scratch worktree',
               needs_to_manifest=note.strip(), confirmed_on_repo_commit=head,
               ran=['demo.py on clean scratch worktree -> exit 0', 'git apply patch.diff; demo.py -> exit 1',
                    'pytest -q -p no:cacheprovider with patch -> ' + tests.strip() + ' (only the 2 baseline test_oddball_version failures)'],
               detected_by=None),
          open('/verif/seeded/%s-%s/meta.json' % (P, I), 'w'), indent=1)
PY
  echo "  stored in /verif/seeded/$P-$T"
else
  echo "  NOT confirmed"; head -5 /tmp/seedchk/demo.out
fi
