#!/usr/bin/env python3
"""Regenerate MANIFEST.json from the table below (kept valid at all times)."""
import json, os
HERE = os.path.dirname(os.path.dirname(os.path.abspath(__file__)))
ALL = ['C%02d' % i for i in range(1, 21)]

E1 = 'CrossHair symbolic execution (z3) of the real functions, per-path, counterexamples replayed on CPython'
E2 = 'own dynamic symbolic executor (AST-instrumented hszinc, symbolic strings, real pyparsing grammar objects interpreted symbolically) with z3 deciding every path; counterexamples replayed'
E3 = 'direct z3 encoding generated from live objects (bytecode / zone tables), validated against the implementation; counterexamples replayed'

CHECKS = {
 'C18': dict(engine='E1-crosshair', technique='bounded symbolic execution with SMT (CrossHair/z3) of Version operators vs reference order; replay',
   text='Every harness is a CrossHair condition over symbolic version components (unbounded ints, 1-3 groups, symbolic suffix): z3 decides each path; "confirmed" = all paths exhausted within the stated bounds, otherwise reported as explored-without-counterexample. Bounded model checking of the real Version code, not a proof.',
   note='Trusts CrossHair 0.0.110 models of int/str/tuple/re and z3; Version objects are built field-wise as the constructor leaves them; reference order written from the module docstring; hash checked by realised values.', ref='5 C18'),
}
CHECKS['C20'] = dict(engine='E1-crosshair', technique='bounded symbolic execution with SMT (CrossHair/z3): op(Quantity(v,u),x) vs op(v,x) per operator and operand form; replay',
   text='One CrossHair condition per (operator found on the live Qty class, operand form Q.n / n.Q / Q.Q); int and bool operands are symbolic z3 terms (unbounded, or small ranges concretised per value for mul/div/mod/pow/shift/bitwise), floats come from a concrete catalogue of special values selected by symbolic index (incl. ints beyond 2**53 and beyond the float range). Result and exception class are compared with the plain-number computation. "confirmed" = all paths exhausted; the division and pow conditions are decided by the symx explorer on the same harness text (CrossHair realises ints at the float conversion).',
   note='Trusts CrossHair/z3 and CPython number semantics on the right-hand side of the comparison; MODE_PINT off; float rounding is not decided by the solver.', ref='5 C20')
CHECKS['C16'] = dict(engine='E1-crosshair', technique='bounded symbolic execution with SMT (CrossHair/z3): one operation from an arbitrary valid map vs reference ordered-map model; replay',
   text='One CrossHair condition per SortableDict/MetadataObject operation. The pre-state (which of 4-5 keys, in which order, with which symbolic values, null included) and every argument (key, value, index, pos_key, after, replace) are symbolic; the real method and a reference ordered-map model run in lock step; the representation invariant is re-established after every operation, so the step result extends to histories (induction schema trusted). "confirmed" = all paths exhausted within the bound.',
   note='Trusts CrossHair/z3; the reference model is written from the add_item docstring; keys are concrete strings chosen by symbolic selectors; multi-item extend/update compared item by item.', ref='5 C16')
SYMX = 'E2-symx'
for pid, what, ref in (('C14', 'list behaviour (len, iteration, indexing incl. negative, slicing with carried version/metadata/columns, membership, exception class, refused operations change nothing)', '5 C14'),
                       ('C15', 'g[key]/g.get(key) against a scan of the model list (a current row with that id string, else KeyError/default)', '5 C15')):
    CHECKS[pid] = dict(engine=SYMX, technique='bounded symbolic execution of the real Grid code (own explorer, z3 decides every branch): one operation from an arbitrary small grid in lock step with a list model; replay',
       text='One exhaustive symbolic exploration per (operation, pre-state size): the pre-state (row kinds with str/int/Ref/no ids incl. the falsy ids 0 and \'\', id index never built or built, version explicit/default/auto-upgraded) and all arguments are symbolic selectors/ints; the real Grid method and a Python list run in lock step and are compared through ' + what + '. Slice deletion covers omitted bounds and steps None/1/2/-1/-2; refused rows include non-dict mappings (SortableDict, MetadataObject). Also a two-step family and a derived-grid (slice/filter) family. The work list empties, so every path within the bound is decided.',
       note='Trusts the symx explorer (proxies + z3) and the list model; rows are concrete dicts chosen by symbolic selectors; bounds: <=2 (quick) / <=3 (thorough) rows in the pre-state; counterexamples replayed on plain CPython.', ref=ref)
CHECKS['C16']['engine'] = SYMX
CHECKS['C19'] = dict(engine=SYMX, technique='bounded symbolic execution of the real __eq__/__ne__/__hash__/Grid.__eq__ (own explorer, z3 decides every branch) against a kind-aware reference equality; replay',
   text='One exhaustive exploration per (law, first operand kind): operand kinds are symbolic selectors over an 18-kind catalogue, numeric payloads symbolic ints (exact rational arithmetic where floats mix in), text/float/unit payloads from boundary catalogues. Laws: no exception (except Quantity unit mismatch), symmetry, ==/!= complementary, kind distinction, reflexivity/copy/deepcopy, hash agreement, transitivity on numeric kinds, singleton identity, Grid == copy and single-position differences give False.',
   note='Trusts the symx explorer and the reference equality in the harness; NaN reflexivity excluded (IEEE); MODE_PINT off; counterexamples replayed on plain CPython.', ref='5 C19')
TXT = 'bounded symbolic execution of the real writer and reader (AST-instrumented hszinc, symbolic code points, real pyparsing grammar objects interpreted symbolically, z3 decides every branch and the final "exists differing payload" query); replay through the public API'
CHECKS['C08'] = dict(engine=SYMX, technique=TXT,
   text='For every text-carrying kind (string, URI, reference display, XStr payload) x position (cell, grid metadata, column metadata, list element, dict value, nested-grid cell) x format x version, the payload is N unconstrained code points (N<=2 quick, <=3 thorough); the real dump and parse run on it and z3 is asked for a payload that changes grid count, row/column shape, a neighbour or the payload itself. unsat on every path = holds for every payload of that length.',
   note='Trusts the symx engine (shims, symbolic re/pyparsing interpreters, differentially validated) and z3; one symbolic payload per document; JSON text layer assumed an inverse pair in the symbolic run (replay uses real text).', ref='5 C08')
CHECKS['C01'] = dict(engine=SYMX, technique=TXT + '; concrete boundary catalogue for numeric/temporal kinds',
   text='ZINC round trip parse(dump(g)) for grids whose payload of one kind at one position is symbolic (text kinds over all code points; ref names, units, XStr type names, Bin mime types over their alphabets), single and two-grid documents, versions 2.0/3.0; equality of version, ordered metadata, columns, rows, kind and content decided by z3 per path. Numbers, dates, times, date-times, coordinates and nested containers come from a concrete boundary catalogue at every position (configurations, not solver-quantified).',
   note='As C08; numeric/temporal text<->value conversion is CPython/pytz/iso8601 code and is exercised concretely only; known finding bin-zinc-3.0 excluded by region.', ref='5 C01')
CHECKS['C02'] = dict(engine=SYMX, technique=TXT + '; concrete boundary catalogue for numeric/temporal kinds',
   text='JSON round trip: same harness family as C01 through jsondumper/jsonparser and the parser glue (dict, list-of-dicts forms symbolically; real JSON text in replay and in the catalogue runs), both Remove spellings via versions 2.0/3.0, six-decimal tolerance for floating payloads.',
   note='As C01; json.dumps/json.loads assumed an inverse pair on JSON-ready trees in the symbolic run.', ref='5 C02')
CHECKS['C04'] = dict(engine=SYMX, technique=TXT.replace('real writer and reader', 'real ZINC writer, whose output is read by an independent reference reader (vf/spec/zinc_ref.py) in the same symbolic run'),
   text='Same harness family as C01, but the text produced by the real ZINC writer is parsed by an independent recursive-descent reference reader written from the specification (no pyparsing, no re, no hszinc import) executing on the same symbolic text; z3 is asked for a payload for which the reference rejects the text or recovers a different grid; layout obligations (final newline, one cell per column, header) are part of the reference grammar.',
   note='The reference is my recollection of the ZINC grammar (uncertain points listed in evidence and treated permissively); numeric/temporal kinds concrete; known finding bin-zinc-3.0 excluded by region.', ref='5 C04')
MUT = 'bounded symbolic execution of the real ZINC reader and an independent reference reader on concrete well-formed documents with one symbolic code point substituted/inserted at each position (z3 decides every branch); replay'
CHECKS['C09'] = dict(engine=SYMX, technique=MUT,
   text='For each of 7 grid documents and 18 scalar texts covering every construct, and each position (every third in quick, every one in thorough; version texts always), one unconstrained symbolic code point replaces or is inserted before the character; hszinc.parse / parse_scalar and the reference reader run on the symbolic text. Every path is classified: grids, ZincParseException with line/col inside its text, another exception (violation), or a structurally broken text accepted (violation when the reference rejects for one of the structural reasons the property lists). Also fully symbolic scalar texts of 1-2 (quick) / 1-3 (thorough) unconstrained code points (every text of that length), adjacent symbolic pairs on the scalar corpus (thorough), and agreement of parse(text) with parse(text, single=False).',
   note='Single-position mutations only; over-acceptance oracle limited to the structural families named by the property; C-level conversions reached with a symbolic character are executed after exhaustive forking over its feasible values (<=700) or, for larger domains, on sampled representatives (counted).', ref='5 C09')
CHECKS['C03'] = dict(engine=SYMX, technique=MUT,
   text='Same corpus and mutation scheme as C09; on every path where the (strict) reference reader accepts the text, hszinc must accept it too and denote the same grid (numbers, instants, texts compared via a neutral tree). The corpus covers blanks around commas, empty cells, digit separators, exponents, INF/-INF/NaN, all escapes, CRLF, trailing commas, t/T z/Z, zone names, final newline, multi-grid documents, both versions. Also every scalar text of 1-2 (quick) / 1-3 (thorough) unconstrained code points and adjacent symbolic pairs on the scalar corpus (thorough).',
   note='Points where my recollection of the spec is uncertain are rejected by the reference as "uncertain" and thus outside the claim (listed in evidence).', ref='5 C03')
CHECKS['C06'] = dict(engine=SYMX, technique=TXT.replace('real writer and reader', 'real JSON writer, whose output tree is decoded by an independent reference decoder (vf/spec/json_ref.py) in the same symbolic run'),
   text='Same harness family as C02; the JSON-ready tree produced by the real writer (and, in the concrete catalogue runs and replays, the real JSON text through json.loads) is checked for shape {meta:{ver},cols:[{name}],rows:[{}]} / array of such, version-dependent Remove spelling, and decoded by an independent reference decoder; z3 is asked for a payload for which the reference rejects or recovers a different grid (numbers to six decimals).',
   note='Reference = my recollection of the Haystack JSON encoding (uncertain points listed); numeric/temporal kinds concrete.', ref='5 C06')
CHECKS['C05'] = dict(engine=SYMX, technique='bounded symbolic execution of the real JSON scalar decoder and an independent reference decoder on encoded scalars with one symbolic code point substituted/inserted at each position; concrete structural variants x input forms; replay',
   text='Corpus of 25 encoded scalars (every type code and spelling the property lists); one unconstrained symbolic code point replaces / is inserted at every position; on every path where the strict reference decoder accepts, hszinc must decode to the same value (neutral tree, instants for date-times). Also every string of 1-4 (quick) / 1-5 (thorough) unconstrained code points as an encoded scalar, and adjacent symbolic pairs on the corpus (thorough). Plus concrete runs of 8 structural grid variants x 5 input forms, including "the pre-decoded input object is unchanged" and "parsing it twice gives the same grid".',
   note='Single-position mutations; uncertain spec points are outside the claim; grid-level forms are concrete configurations.', ref='5 C05')
CHECKS['C07'] = dict(engine=SYMX, technique=MUT + '; concrete corpus runs',
   text='Parser-made grids (from the ZINC spelling corpus, extra documents with fixed-offset date-times in different DST seasons and at skipped local times, non-official versions 2.5 / 3.0.0, and JSON-origin grids) are re-dumped in both formats, re-parsed, transcoded ZINC->JSON->ZINC and JSON->ZINC->JSON and normalised twice; checks: no exception (except the documented ValueError for an offset no zone has), equal grids, two dumps identical, grid unchanged by dumping, dump(parse(dump(g))) == dump(g) character for character. Concretely for every document and symbolically with one symbolic character substituted at every second (quick) / every (thorough) position, z3 deciding every branch and the final "exists character for which any of these differs" query.',
   note='As C03/C09; JSON floats to six decimals; symbolic runs use the JSON-ready tree; purity is observed through a neutral snapshot of the grid before and after dumping.', ref='5 C07')
CHECKS['C11'] = dict(engine=SYMX, technique='bounded symbolic execution of Grid.filter and the generated filter functions on symbolic rows (own explorer, z3 decides every branch) against an independent reference evaluator; filters compiled by the real pipeline; replay',
   text='Filter texts (every and/or/not/parenthesis tree with <=3 (quick) / <=4 (thorough) leaves in two renderings, unparenthesised chains, 14 literal kinds x 6 operators, a->b and a->b->c paths) are compiled by the real parse_filter -> source generation -> exec pipeline; Grid.filter then runs on rows whose tag presence bits, value kinds (symbolic selector over 29 values) and one numeric value (unbounded z3 Int) are symbolic, with symbolic limit. The rows returned (identity and order), carried version/metadata/columns and the untouched source grid are compared with an independent evaluator of the filter AST. Tag presence is checked for a tag holding each of 45 values (every kind, every falsy value, null, a symbolic int), and a->b on grids with a history of deletions, replacements and insertions.',
   note='Reference semantics documented in the evidence (comparisons between a quantity and a unit-less number, orderings of booleans and of different text kinds are left unspecified); row ids are strings; literal text decoding belongs to C12.', ref='5 C11')
CHECKS['C12'] = dict(engine=SYMX, technique='bounded symbolic execution of the filter text -> AST -> generated-source path (real filter grammar through the symbolic pyparsing interpreter, real parse actions, real source generation) with one symbolic code point per position; syntactic safety check of the generated source; canary filters under sys.addaudithook; replay',
   text='For 17 filters covering every literal and identifier position, one unconstrained symbolic code point replaces / is inserted at every position; parse_filter and _generate_filter_in_python run symbolically; every path either rejects the text with a parse error or yields a source whose return expression contains only hszinc\'s own helper names, parameters, constants, constant subscripts and lists of constants (so no name or call taken from the filter text), and every tag name, reference name, type name and dict key of an accepted filter is a well-formed token. 42 canary filters (builtins, dunder names, quote/backslash breakouts) are evaluated concretely under an audit hook: no canary effect, no process/file/socket event, generated sources safe, grid unchanged, and hszinc\'s module-level state (identity of every module global, size of every container, warning-registry entries) unchanged under the default warning filters.',
   note='The generated text is checked after concretising symbolic characters (exhaustive for small domains, sampled representatives otherwise, counted); safety is syntactic (vf/c12audit.py).', ref='5 C12')
CHECKS['C10'] = dict(engine=SYMX, technique='bounded symbolic execution of the real Grid mutators, writers and readers (own explorer, z3 decides every branch) against an independently stated version gate; replay',
   text='15 entry paths (constructor arguments, metadata and column-metadata stores/overwrites, column[name]={...}, append, insert, extend, setitem, +=) x 10 declared versions (none, 2.0, 3.0, 2.5, 3.0.0, 1.0, 4.0, 2.0.0, 2.0a, 3) x 12 value kinds are chosen by symbolic selectors: a 3.0-only value upgrades an unversioned grid, is accepted by a 3.0-rules version and refused with ValueError (grid unchanged) otherwise; all pairs of stores; the writers as last line of defence for data placed behind the grid\'s back; and the five decisions Grid / ZINC writer / JSON writer / ZINC reader / JSON reader agree for the named versions and for every version a[.b[.c]][a] with symbolic components a<=4, b<=3, c<=2.',
   note='Gate stated independently as "declared version later than 2.0"; values are concrete objects chosen by symbolic selectors; multi-item extend calls are not required to be atomic.', ref='5 C10')
CHECKS['C13'] = dict(engine='E2-symx + deterministic scheduler', technique='schedules and histories as sequences of symbolic integers enumerated exhaustively by the explorer (z3 decides feasibility), each executed on the real code by a deterministic thread scheduler (sys.settrace line granularity); replay of the schedule',
   text='2 (quick) / 3 (thorough) real threads each compile and evaluate a distinct filter with its own literals through the real Grid.filter; every thread is stopped at each source line of filter_function/_filter_function/_FnWrapper and the next thread to run is a symbolic integer: all interleavings with <=2 (quick) / <=3 preemptions are explored, also with a capacity-2 cache so that evictions and finalisers interleave with compilations. Histories: all sequences of 5-6 evaluations over 3-4 same-shape filters whose literals are equal and hash alike in Python but differ in Haystack kind (true/1, false/0) with a cache of 2-3 entries (through Grid.filter or previously obtained functions), and one concrete history of 1500 distinct filters around the real capacity with a hot filter and held functions. Every thread/step must return exactly its own filter\'s rows.',
   note='Scheduling granularity is the source line of the compile step; lru_cache itself assumed thread safe; capacity reduced by re-creating the cache in the eviction scenarios.', ref='5 C13')
CHECKS['C17'] = dict(engine='E3-z3 tables + exhaustive validation', technique='z3 queries over the live zone-name maps and pytz transition tables (bijection, offset form), then exhaustive execution of every tabulated (zone, transition, delta, microsecond) and (fixed offset, local time) through the real writers and readers; replay',
   text='The name<->zone maps and the transition tables of all mapped zones are read from the live objects. z3 decides: the maps are mutually inverse and one-to-one (4 queries over the maps as functions), and no tabulated offset needs a form the readers cannot parse (one query per zone). Because what remains is library calendar arithmetic, the table is not abstracted further but validated exhaustively against the implementation: every tabulated transition instant of every zone +-{0,1 s,30 min} (thorough: more deltas) x microseconds, in both formats, must keep instant, UTC offset and Haystack zone name; and for fixed-offset tzinfo (whole-minute offsets -14h..+14h at ordinary, skipped and ambiguous local times) the writer must name a zone with that offset at that instant or raise ValueError, never another exception, never change the instant.',
   note='pytz/datetime/iso8601 arithmetic is exercised, not re-derived; the grammar part of the date-time text (T/Z case, fraction digits, zone-name syntax) is decided symbolically by C03/C05/C07; instants outside years 2..9998 excluded.', ref='5 C17')
NA_REASON = {}

def main():
    checks = []
    for pid in ALL:
        if pid not in CHECKS:
            continue
        c = CHECKS[pid]
        checks.append(dict(
            property_id=pid,
            quick_cmd='./check %s --tier quick' % pid,
            thorough_cmd='./check %s --tier thorough' % pid,
            evidence_file='/verif/evidence/%s.json' % pid,
            replay_cmd_template='./check %s --replay {path}' % pid,
            engine=c['engine'],
            level_claimed=dict(category='model_checking', text=c['text'], design_ref='DESIGN.md section ' + c['ref']),
            level_note=c['note'],
            technique=c['technique']))
    na = [dict(property_id=p, reason=NA_REASON.get(p, 'check under construction in this round: no solver-based check for it is registered yet (see DESIGN.md section 5 for the intended encoding)'))
          for p in ALL if p not in CHECKS]
    man = dict(
        version=1,
        setup_cmd='./setup.sh',
        hooks=dict(guard='HSZINC_VERIF', enable='no source hooks: the checks instrument hszinc at import time (AST rewriting in an import hook) and read /repo (or $HSZINC_REPO) directly',
                   baseline_off_cmd='cd /repo && /venv/bin/python -m pytest -ra -q -p no:cacheprovider --timeout=900 --continue-on-collection-errors',
                   source_commits=[], add_only=True),
        engines=[
            dict(name='E1-crosshair', path='/verif/vf/xhair.py', serves_properties=[p for p in CHECKS if CHECKS[p]['engine'].startswith('E1')], kind_free_text=E1),
            dict(name='E2-symx', path='/verif/vf/symx', serves_properties=[p for p in CHECKS if 'E2' in CHECKS[p]['engine']], kind_free_text=E2),
            dict(name='E3-z3', path='/verif/vf/enc', serves_properties=[p for p in CHECKS if 'E3' in CHECKS[p]['engine']], kind_free_text=E3),
        ],
        checks=checks,
        notes='All checks are solver-based bounded checks of the real code (DESIGN.md). Exit 0 = no unlisted violation in the explored bound; exit 1 + VIOLATION line = replay-confirmed violation; exit 2 = harness fault. known_findings.json lists recorded/fixed genuine defects.',
        not_applicable=na)
    with open(os.path.join(HERE, 'MANIFEST.json'), 'w') as f:
        json.dump(man, f, indent=1)
    try:
        import jsonschema
        jsonschema.validate(man, json.load(open('/root/.vp/MANIFEST.schema.json')))
        print('MANIFEST.json valid;', len(checks), 'checks,', len(na), 'not_applicable')
    except ImportError:
        print('written (jsonschema not available for validation)')

if __name__ == '__main__':
    main()
