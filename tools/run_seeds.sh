#!/bin/bash
# tools/run_seeds.sh [ID ...] : run the quick check of each seeded change's property with the change applied to /repo
cd /verif
ids="$@"; [ -z "$ids" ] && ids=$(ls seeded)
for id in $ids; do
  P=${id%%-*}
  [ -f vf/props/${P,,}.py ] || { echo "$id: no check for $P yet"; continue; }
  if ! git -C /repo diff --quiet; then echo "/repo dirty"; exit 2; fi
  git -C /repo apply /verif/seeded/$id/patch.diff || { echo "$id: patch does not apply"; continue; }
  out=$(./check $P --tier ${TIER:-quick} 2>&1); rc=$?
  git -C /repo checkout -- .
  nv=$(echo "$out" | grep -c "^VIOLATION")
  first=$(echo "$out" | grep -A1 "^VIOLATION" | grep "what:" | head -1)
  echo "$id: exit=$rc violations=$nv $first"
  python3 - "$id" "$rc" "$nv" "$first" <<'PY'
import json, sys
id, rc, nv, first = sys.argv[1:5]
p = '/verif/seeded/%s/meta.json' % id
m = json.load(open(p))
m['detected_by'] = ('./check %s --tier quick -> exit %s, %s VIOLATION lines; first:%s' % (m['property'], rc, nv, first)) if rc == '1' else ('NOT detected by ./check %s --tier quick (exit %s)' % (m['property'], rc))
json.dump(m, open(p, 'w'), indent=1)
PY
done
