#!/bin/bash
# tools/try_seed.sh <patch.diff> <PROP> [extra check args]  : apply a seeded change to /repo, run the check, undo.
set -u
patch="$1"; prop="$2"; shift 2
cd /repo || exit 2
if ! git diff --quiet; then echo "/repo has uncommitted changes"; exit 2; fi
git apply "$patch" || { echo "patch does not apply"; exit 2; }
cd /verif
./check "$prop" "$@" 2>&1 | grep -v "^WARNING conda" | tail -${TAILN:-6}
rc=${PIPESTATUS[0]}
git -C /repo checkout -- .
echo "check exit code: $rc"
