# Stand-alone replay: runs plain hszinc from $HSZINC_REPO (default /repo).
# exit 1 = the property is violated by this input, exit 0 = it is not.
import os, sys, io, warnings, contextlib
warnings.simplefilter('ignore')
sys.path.insert(0, os.environ.get('HSZINC_REPO', '/repo'))
with contextlib.redirect_stdout(io.StringIO()):
    import hszinc
g = hszinc.Grid(version='3.0')
g.column['a'] = {}
g.append({'a': hszinc.Bin('text/plain')})
try:
    with contextlib.redirect_stdout(io.StringIO()):
        back = hszinc.parse(hszinc.dump(g, mode=hszinc.MODE_ZINC), mode=hszinc.MODE_ZINC)
    ok = isinstance(back[0]['a'], hszinc.Bin) and back[0]['a'] == hszinc.Bin('text/plain')
except Exception as e:
    print('violated: a 3.0 grid holding Bin("text/plain") is written as Bin(text/plain), which the 3.0 reader rejects: %s' % type(e).__name__)
    sys.exit(1)
if not ok:
    print('violated: Bin did not come back as the same Bin: %r' % (back[0]['a'],))
    sys.exit(1)
print('holds')
sys.exit(0)
