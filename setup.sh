#!/bin/bash
# Build the overlay venv used by every check (offline; wheels from /opt/veriftools/wheels).
set -e
cd "$(dirname "$0")"
if [ ! -x .venv/bin/crosshair ] || ! .venv/bin/python -c 'import crosshair, z3, pyparsing, pytz, iso8601, six' 2>/dev/null; then
  rm -rf .venv
  /venv/bin/python -m venv .venv
  echo "import site; site.addsitedir('/venv/lib/python3.12/site-packages')" > .venv/lib/python3.12/site-packages/_base.pth
  PIP_NO_INDEX=1 .venv/bin/pip install -q --no-index --find-links /opt/veriftools/wheels crosshair-tool z3-solver
fi
.venv/bin/python -c 'import crosshair, z3, pyparsing, pytz, iso8601, six; print("verif venv ok: crosshair", crosshair.__version__, "z3", z3.get_version_string())'
